#!/bin/bash
# usage: trymut.sh <patch-file> <PROP>...   applies a patch to /repo, runs quick checks, reverts.
P="$1"; shift
git -C /repo apply "$P" || { echo "patch does not apply"; exit 2; }
for c in "$@"; do
  out=$(cd /verif && ./bin/simcheck run "$c" --tier quick 2>&1); code=$?
  echo "== $c exit=$code"; echo "$out" | grep -E "rule=|VIOLATION|harness error|KNOWN" | head -6
done
git -C /repo checkout -- . ; rm -f /verif/replays/*.json
