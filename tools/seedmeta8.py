#!/usr/bin/env python3
"""Copies round-8 seeded changes from /tmp/wt8/<P>/out/<mutN> into /verif/seeded/<P>-<mutN>/ with meta.json."""
import json, os, shutil
meta = {
 "C01-mut17": ("C01", "-c ends its count line with seen:N gone:M computed as seen.len() - tracked from a per-connection set", "--tcp, -c, a non-quiet display and a reconnect: the first refresh of a later session underflows (overflow-checked build) and kills the reader"),
 "C01-mut18": ("C01", "the -f list is folded into a u32 bit mask with 1 << x", "any -f value of 32 or more: shift overflow panic before the first line (debug); wraps in release"),
 "C13-mut17": ("C13", "read_lines returns (lines, frames); connect_and_read_tcp treats the peer as unproven until its first frame", "a first TCP session that delivers lines but no frame: Err(InvalidData), the reader ends for good"),
 "C13-mut18": ("C13", "clean_squitter classifies digits with hex_value(c as u8), a truncating cast", "a junk line in which a character >= U+0100 whose low byte is an ASCII hex digit replaces a frame digit: decoded as a frame"),
 "C18-mut17": ("C18", "read_lines latches a framing ('*', '@', bare hex) per connection from its first line; later lines in another framing are dropped", "a connection whose first line is a cut tail / differently framed: every later line in the other framing is ignored"),
 "C18-mut18": ("C18", "a pre-filter counts hex digits with a 128-entry table indexed by b as usize", "any junk byte >= 0x80: index out of bounds, the reader thread ends"),
 "C12-mut17": ("C12", "cleanup moves the callsign of each swept row into a static cache; update_aircraft puts it back into a row created later for the same address", "a row re-created after expiry by a frame without callsign remembers its old callsign"),
 "C12-mut18": ("C12", "sweep age computed as num_milliseconds() as i32 / 1000", "silences longer than 2^31 ms (about 24.86 days): the rows survive the sweep"),
 "C03-mut17": ("C03", "a TCP connection closing inside a line that is not a frame keeps the fragment and prefixes it to the first line of the next connection", "the first frame of a later connection is misattributed or dropped"),
 "C03-mut18": ("C03", "update_aircraft asks a 'known address' bitmap indexed by icao as u16 before creating a row", "an aircraft whose low 16 address bits match an already tracked one never gets a row"),
 "C04-mut17": ("C04", "the fragment left at end of stream without a final newline goes through get_frame, which has no parity test", "a damaged DF11/17/18 frame as the unterminated last line is applied"),
 "C04-mut18": ("C04", "reminder() folds the remainder's bytes with u8::wrapping_add instead of OR", "non-zero remainders whose bytes sum to a multiple of 256 (21 of 5671 two-bit errors on DF17) are accepted"),
 "C16-mut17": ("C16", "the -f list is consulted through a one-entry memo (last format, verdict) that starts as (0, true)", "-f not listing 0 and a leading run of DF0 frames at the head of a stream: admitted, applied and counted"),
 "C16-mut18": ("C16", "the non-zero-address test is done on address as u16 via NonZeroU16", "frames whose address is XX0000 are dropped like address 000000"),
 "C19-mut17": ("C19", "display_legend (start of every stream when -i has no Q) also empties the table", "after a TCP reconnect earlier aircraft survive only with -i Q"),
 "C19-mut18": ("C19", "-U path update_cpr discards the opposite CPR half when older than 10 * 100 ms", "even/odd pairs received 1 to 10 s apart: position on the default path, none with -U"),
 "C08-mut17": ("C08", "the distance column is written only at a row's first fix (or_else)", "later fixes move lat/lon but leave the distance stale"),
 "C08-mut18": ("C08", "the even/odd age is held as u16 milliseconds", "pairs 65.536-75.535 s apart (and further multiples) are accepted: unsupported position shown"),
 "C10-mut17": ("C10", "only the first BDS 1,7 report in a row's life is stored", "a register that a later report adds is never decoded"),
 "C10-mut18": ("C10", "BDS 6,0 heading computed as (value as f64 * 0.1758) as u32", "1 deg too high for 8 of the 1024 magnitudes (both signs)"),
 "C11-mut17": ("C11", "rows removed by the sweep go into a static spare pool and are reused for newly heard aircraft with an incomplete clear()", "at the expire/create transition a new aircraft shows the old one's ADS-B version, GNSS height and threat flag"),
 "C11-mut18": ("C11", "the 25-ft altitude offset uses saturating_sub(1000)", "altitude codes from -1000 to -25 ft yield Some(0) instead of no altitude"),
}
root='/verif/seeded'
for k,(prop,what,needs) in meta.items():
    p,m=k.split('-')
    src=f'/tmp/wt8/{p}/out/{m}'
    if not os.path.isdir(src): print("missing", src); continue
    dst=f'{root}/{k}'
    os.makedirs(dst,exist_ok=True)
    for f in os.listdir(src):
        if os.path.isfile(os.path.join(src,f)): shutil.copy(os.path.join(src,f),os.path.join(dst,f))
    demo='demo.rs' if os.path.exists(dst+'/demo.rs') else 'demo.sh'
    json.dump({"id":k,"property":prop,"change":what,"needs_to_manifest":needs,"written_by":"independent sub-agent (round 8: one lifecycle defect, one numeric-representation defect per property) that saw only the property record, a scratch worktree of /repo and a list of ideas already used",
      "demonstration":demo,
      "confirmed":"tools/seedeval.sh in a scratch worktree: patch applies; `cargo test --workspace --offline` 66 unit tests + 2 doctests pass with the patch; demonstration passes on the unchanged tree and fails with the patch",
      "how_to_run_demo": ("copy demo.rs to tests/demo_seed.rs in a worktree of /repo and run `cargo test --offline --test demo_seed`" if demo=='demo.rs' else "run `bash demo.sh` from the root of a worktree of /repo"),
      "caught_by":[]}, open(dst+'/meta.json','w'), indent=1)
print("copied", len(meta))
