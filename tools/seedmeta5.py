#!/usr/bin/env python3
"""Copies round-5 seeded changes from /tmp/wt5/<P>/out/<mutN> into /verif/seeded/<P>-<mutN>/ with meta.json."""
import json, os, shutil
meta = {
 "C01-mut11": ("C01", "PTH age digits folded into a helper that indexes a 16-entry table without the original & 15 wrap", "a display refresh (extra column group) while a live aircraft's last position / track / heading fix is 160 s old or more: index out of bounds"),
 "C01-mut12": ("C01", "error-handling clean-up: a failed read is logged and the loop continues instead of ending the stream", "a persistent read error (EISDIR, repeated EIO, a dead socket): the reader spins for ever"),
 "C13-mut11": ("C13", "line splitter becomes read_until into a buffer owned by connect_and_read_tcp", "a TCP session ending inside a line: the unterminated tail is glued in front of the first line of the next session, that frame is lost"),
 "C13-mut12": ("C13", "per-line decode moved into process_line; cleanup and refresh now run for every line", "junk lines advance the sweep counter: with a row expiring at a shifted sweep position the junk-laden table differs"),
 "C18-mut11": ("C18", "lines are split a whole read at a time; a read error drops the complete lines split from that read so far", "one read delivering complete frames followed by a partial line, then a reset on the next read: those frames never reach the table"),
 "C18-mut12": ("C18", "rejected lines are logged truncated with &line[..48] on the lossily decoded text (computed even without a logger)", "a junk line longer than 48 bytes with a multi-byte character straddling byte 48: the reader thread panics and never reconnects"),
 "C12-mut11": ("C12", "a frame identical to the previously decoded one in the same session is skipped as a feed duplicate", "the same frame twice in a row with time passing in between (bit-identical DF11 replies): the age does not restart, the aircraft is swept while heard"),
 "C12-mut12": ("C12", "at most one sweep per second (last_sweep field)", "a row that expires after a sweep followed by 12 or more accepted frames within the same second: it outlives the 12-frame bound"),
 "C03-mut11": ("C03", "1 s read timeout and a read_until loop whose raw.clear() also runs after a timeout", "a line arriving in two reads more than 1 s apart, split after digit 14 of a 28-digit frame whose tail looks like DF0/4/5: ghost row"),
 "C03-mut12": ("C03", "DF::decode_into recycles the decoded record from frame to frame (Ext::update never clears fields)", "a DF17 surface position of aircraft B decoded right after a DF17 airborne position of aircraft A: A's altitude lands in B's row"),
 "C04-mut11": ("C04", "the reader counts consecutive parity failures on a stream and from the 17th applies them unverified until a frame passes again", "a burst of 17 or more damaged DF11/17/18 lines with no accepted frame in between"),
 "C04-mut12": ("C04", "reminder() clean-up: overlaid_bits(df) with the exclusive range 17..18, DF18 falls into the unchecked arm", "any corrupted DF18 frame is applied"),
 "C16-mut11": ("C16", "the branch that rejects a frame under -f also calls planes.cleanup()", "a tracked aircraft silent for delete_after and the sweep falling due on a filtered-out frame: the filtered frame changes the table"),
 "C16-mut12": ("C16", "decode hoisted before the filter, which now tests DF::df() with is_some_and: placeholder records (DF18, 19, 22-31) have df None", "-f with any list: DF18 / DF19 / DF22-31 frames pass the filter, are counted and applied"),
 "C19-mut11": ("C19", "self.timestamp = Utc::now() moved after the dispatch on the default path", "a gap of 10 s or more between frames of one aircraft: the default path pairs CPR frames on the wrong instants, -U does not"),
 "C19-mut12": ("C19", "reader keeps one Option<DF> across lines and refreshes it in place with Downlink::update()", "a surface-position frame of a tracked aircraft after an airborne DF17 frame: default path shows the stale altitude, -U none"),
 "C08-mut11": ("C08", "on every TCP reconnect after the first all rows' CPR slots are zeroed", "a reconnect between the even and the odd frame of a pair (well inside 10 s): no position"),
 "C08-mut12": ("C08", "the 10 s guard compares epoch seconds with abs_diff instead of the truncated signed duration", "a pair 9.x s apart whose older stamp lies later within its second than the newer one: wrongly rejected"),
 "C10-mut11": ("C10", "Plane::update resets the BDS 1,7 register flags when 30 s or more have passed since the aircraft's previous frame", "30 s of silence (below delete_after) followed by an advertised valid reply: not decoded"),
 "C10-mut12": ("C10", "a 'MB bit 1 set' pre-check gates the 1,7 / 4,0 / 5,0 / 6,0 inference", "a BDS 1,7 report whose bit 1 (register 0,5) is clear: dropped, later 5,0 / 6,0 replies ignored"),
 "C11-mut11": ("C11", "split(b'\\n') replaced by a fill_buf/consume splitter with a carry buffer whose blank-line fast path ignores the carry", "a read ending exactly between a frame's last byte and its newline: that frame and the next are lost"),
 "C11-mut12": ("C11", "amend_from_ext_5_8 and amend_from_ext_9_18 merged; the surveillance-status assignment landed in the common part", "default path: a surface squitter blanks a previously shown surveillance status"),
}
root='/verif/seeded'
for k,(prop,what,needs) in meta.items():
    p,m=k.split('-')
    src=f'/tmp/wt5/{p}/out/{m}'
    if not os.path.isdir(src): print("missing", src); continue
    dst=f'{root}/{k}'
    os.makedirs(dst,exist_ok=True)
    for f in os.listdir(src):
        if os.path.isfile(os.path.join(src,f)): shutil.copy(os.path.join(src,f),os.path.join(dst,f))
    demo='demo.rs' if os.path.exists(dst+'/demo.rs') else 'demo.sh'
    json.dump({"id":k,"property":prop,"change":what,"needs_to_manifest":needs,"written_by":"independent sub-agent (round 5: one change that needs an environmental condition - timing, loss, reordering, reconnect, chunking -, one maintenance-style change per property) that saw only the property record, a scratch worktree of /repo and a list of ideas already used",
      "demonstration":demo,
      "confirmed":"tools/seedeval.sh in a scratch worktree: patch applies; `cargo test --workspace --offline` 66 unit tests + 2 doctests pass with the patch; demonstration passes on the unchanged tree and fails with the patch",
      "how_to_run_demo": ("copy demo.rs to tests/demo_seed.rs in a worktree of /repo and run `cargo test --offline --test demo_seed`" if demo=='demo.rs' else "run `bash demo.sh` from the root of a worktree of /repo"),
      "caught_by":[]}, open(dst+'/meta.json','w'), indent=1)
print("copied", len(meta))
