#!/usr/bin/env python3
"""Copies round-2 seeded changes from /tmp/wt2/<P>/out/<mutN> into /verif/seeded/<P>-<mutN>/ with meta.json."""
import json, os, shutil
meta = {
 "C01-mut3": ("C01", "expiry sweep computes now - Duration::seconds(delete_after) once before the loop", "an extreme --delete-after (i64::MAX, about 8.3e12 or more, or i64::MIN) and at least 12 accepted frames (first sweep): panic in chrono"),
 "C01-mut4": ("C01", "CPR zone-count match keeps the 'at least 1' clamp only for odd frames", "two surface-position frames (TC 5-8) of one aircraft, odd then even, at a latitude above 85.76 deg: zone count 0, `% 0` panic"),
 "C13-mut3": ("C13", "counter of consecutive rejected lines returns Err(InvalidData) after more than 64 in a row", "65 or more junk lines in a row: the rest of a file is dropped / a TCP connection is abandoned"),
 "C13-mut4": ("C13", "repeat filter on receiver time stamps of '@<12 hex><frame>;' lines updates its newest-time-stamp mark before the line is validated", "a rejected line with 26 or 40 hex digits whose time stamp is ahead: following valid time-stamped lines are skipped until the clock catches up"),
 "C18-mut3": ("C18", "was_connected flag suppresses the 5 s pause on failure and is never cleared", "after any successful session, refused connections are retried in a busy loop with no pause"),
 "C18-mut4": ("C18", "forced expiry sweep on the first successful connect after a failed one, passing args.update instead of args.delete_after as the maximum age", "frames, drop, at least one refusal, healthy connection: aircraft learned before the interruption are wiped (with --update=-1 or the default 3)"),
 "C03-mut3": ("C03", "crc56/crc112 rewritten as a 16-bit table-driven CRC whose table loop stops one short (entry 0xFFFF stays 0)", "a DF0/4/5/16/20/21 frame whose 16-bit step index reaches 0xFFFF (about 1 short frame in 65 536, 1 long frame in 16 000): attributed to a foreign address"),
 "C03-mut4": ("C03", "ghost guard: drops any DF0/4/5/16/20/21 frame of an address with no row once the table holds more than 128 rows", "more than 128 aircraft tracked, then a newcomer first heard on an address/parity format"),
 "C04-mut3": ("C04", "reader falls back to a single-bit repair of DF17 frames, accepted when the repaired address already has a row", "a DF17 frame with exactly one flipped bit belonging to an already tracked aircraft: applied"),
 "C04-mut4": ("C04", "parity check skipped for lines starting with '@' (AVR-MLAT framing)", "a corrupted DF11/17/18 frame delivered in '@...;' framing"),
 "C16-mut3": ("C16", "filter membership via binary_search on the unsorted -f list", "a -f list in descending or mixed order (e.g. -f 21 -f 4): listed formats silently lost"),
 "C16-mut4": ("C16", "update_count skips a frame identical to the previously counted one (echo de-duplication)", "the same frame delivered twice (also with rejected or filtered lines in between): counted once"),
 "C08-mut3": ("C08", "haversine folds dlon into 0..=PI by subtracting PI instead of taking 2*PI - dlon", "observer and aircraft straddling the antimeridian (|dlon| > 180 deg): distance column wrong"),
 "C08-mut4": ("C08", "self.timestamp = Utc::now() moved after the dispatch on the default path, so cpr_time / position_timestamp get the time of the previous frame", "default path: even and odd frames 11 s apart get paired; a pair arriving together after 30 s of silence is rejected"),
 "C12-mut3": ("C12", "table cleared on every successful TCP connect", "--tcp with a dropped connection: aircraft heard milliseconds ago vanish at the reconnect"),
 "C12-mut4": ("C12", "sweep expires at silent_for > delete_after instead of >=", "rows silent for exactly delete_after seconds (up to +1 s) survive the sweep"),
 "C19-mut3": ("C19", "maximum-range gate: decoded positions further than 1000 km from the observer are discarded", "-O more than 1000 km from the traffic: -O decides whether a position is shown at all"),
 "C19-mut4": ("C19", "CPR decode for TC 20-22 added to the downlink path only", "histories with TC 20/21/22 even/odd pairs: a position without -U, none with -U"),
 "C10-mut3": ("C10", "capability gate moved into update_from_mode_s below the BDS 2,0 block", "a BDS 2,0 callsign from an aircraft with CA < 4 (or no CA) without -R is accepted"),
 "C10-mut4": ("C10", "gates folded into expects(register, relaxed); the 6,0 arm lost `relaxed ||`", "-R and no BDS 1,7 report advertising 6,0: a valid BDS 6,0 is not decoded"),
 "C10-mut5": ("C10", "reserved-bit check of is_bds_1_7 covers frame bits 65-88 instead of 61-88", "a valid BDS 4,0 with MB bit 7 set and MB bits 33-56 zero (e.g. 34000 ft selected, pressure raw 2176, no mode bits): taken for a 1,7 report"),
 "C11-mut3": ("C11", "DF20 altitude / DF21 squawk decoding moved behind the Comm-B capability gate", "a row with CA < 4 or no DF11 yet, without -R: DF20/DF21 no longer update altitude / squawk"),
 "C11-mut4": ("C11", "capability carrier list on the Plane::update path becomes 11 | 17 | 18", "-U and a DF18 frame: its CF field is written into the capability"),
 "C11-mut5": ("C11", "Planes::update_aircraft drops a frame identical to the previous one", "a row-creating DF20/21 (address only) or, under -U, DF17 immediately repeated: the repetition that should bring altitude / squawk / callsign / CA is swallowed"),
}
root='/verif/seeded'
for k,(prop,what,needs) in meta.items():
    p,m=k.split('-')
    src=f'/tmp/wt2/{p}/out/{m}'
    if not os.path.isdir(src): print("missing", src); continue
    dst=f'{root}/{k}'
    os.makedirs(dst,exist_ok=True)
    for f in os.listdir(src):
        if os.path.isfile(os.path.join(src,f)): shutil.copy(os.path.join(src,f),os.path.join(dst,f))
    demo='demo.rs' if os.path.exists(dst+'/demo.rs') else 'demo.sh'
    json.dump({"id":k,"property":prop,"change":what,"needs_to_manifest":needs,"written_by":"independent sub-agent (round 2) that saw only the property record, a scratch worktree of /repo and a list of ideas already used",
      "demonstration":demo,
      "confirmed":"tools/seedeval.sh in a scratch worktree: patch applies; `cargo test --workspace --offline` 66 unit tests + 2 doctests pass with the patch; demonstration passes on the unchanged tree and fails with the patch",
      "how_to_run_demo": ("copy demo.rs to tests/demo_seed.rs in a worktree of /repo and run `cargo test --offline --test demo_seed`" if demo=='demo.rs' else "run `bash demo.sh` from the root of a worktree of /repo"),
      "caught_by":[]}, open(dst+'/meta.json','w'), indent=1)
print("copied", len(meta))
