#!/usr/bin/env python3
"""Regenerates /verif/MANIFEST.json from the table below (kept in one place so
claimed / not-applicable lists never drift apart)."""
import json, os, subprocess
ROOT = os.path.dirname(os.path.dirname(os.path.abspath(__file__)))

CLAIMED = {
 "C10": ("4 (C10)", "seeded interrogation dialogues over a lossy / duplicating / reordering channel with row expiry in between; oracle: reference gating automaton {CA recorded via DF11 (certain) or DF17 (possible), registers advertised by the latest admissible BDS 1,7 report, -R} plus an independent Doc 9871 decoder (checked against literature vectors): MB-derived fields change only when gating allows and the register is valid, take the reference values, and valid in-range advertised registers are decoded (left/right turns, climbs/descents)"),
 "C08": ("4 (C08)", "seeded two-message-protocol simulation: ground-truth trajectories stratified over all NL zones / both sides of every transition latitude / equator / +-87 / antimeridian / CPR-zero points, even/odd frames separated by exactly 9.999999 / 10 / 10.000001 s on the discrete-event clock, lost / duplicated / reordered frames; oracle: reference pairing automaton + textbook global CPR decode (NL from its formula), 20 m against encoded truth, haversine distance, position untouched by every frame that completes no valid pair; clock set back between the frames of a pair, pairs straddling midnight / month end / new year, reconnects mid-pair"),
 "C11": ("4 (C11)", "seeded refinement against a small executable fold ('latest carrier wins') after every event of interleaved multi-aircraft histories with time steps and duplicate delivery; short histories enumerated densely by run index; carried values taken from the decoder's own state-free decode (altitude codes, callsigns, DF21 squawk and TC19 velocity are decoded independently as well) so that routing / overwriting / clearing / cross-talk / idempotence are judged; long uptime, calendar boundaries, bursts"),
 "C19": ("4 (C19)", "seeded differential simulation under deterministic replay: the same world (input, arrival times, clocks) executed under two option sets differing only in presentation/logging options or in -U; oracle: row-by-row table equality after every event (all fields; all but distance for -O; the nine decoded parameters for -U)"),
 "C03": ("4 (C03)", "seeded interleaved multi-aircraft histories (adversarially close addresses, nine formats, random payloads, zero-address frames, duplicates, reordering); invariants after every delivered read against an independent CRC-24/address reference: only the addressed row changes, it exists afterwards, no row for address 0, key == address, no unexplained rows; non-interference replay of one aircraft's own frames; clock set back, reconnects, tables of 1000+ rows"),
 "C12": ("4 (C12)", "seeded schedules of talk spurts and silences on and around delete_after under a discrete-event clock, every format as the refreshing frame, -U/-f, file and TCP with reconnects; oracle: reference expiry model after every event (live rows present, last-contact stamp == processing time of latest accepted frame, stale rows gone within 12 accepted frames, re-created rows equal first-frame rows, no phantom rows); clock set back, 'never delete' limits, weeks of silence, 600-1500 rows going silent at once"),
 "C16": ("4 (C16)", "seeded mixed streams (all formats, unsupported DFs, zero addresses, parity failures, junk) under -f subsets, -c on/off, refresh driven by the simulated clock, stdout captured through the seam; oracle: reference per-DF counter == printed counter line in ascending order, filtered/rejected frames change neither table nor output (stepwise, and against a second run without the excluded frames), passing frames are applied, no counter line without -c; heavy runs: 65 536+ frames, 1000+ aircraft, all 32 formats"),
 "C18": ("4 (C18)", "seeded TCP fault sequences over {refuse, accept+close, accept+frames+close, accept+partial line+reset/timeout, accept+junk, EINTR} followed by a healthy connection, with simulated 5 s retry pauses, clock steps during outages, -f; oracle: reader never returns/panics, whole script is read and healthy frames applied, 3..8 s pause after a refused attempt, rows heard within delete_after survive unchanged (also against a fault-free replay of the same lines at the same instants), rejected partial lines change nothing"),
 "C04": ("4 (C04)", "seeded histories with bit-flip injection on in-flight DF11/17/18 squitters (all 1-bit, all 2-bit, all (start,len<=24) bursts enumerated round-robin by run index, heavy random) at chosen history points; oracle: table bit-for-bit unchanged incl. time stamps and no counter/output effect whenever the reference CRC-24 syndrome demands rejection; IID-only DF11 must be applied; repeated damaged frames, damage by the station's interrogator code, 100 000+ clean lines before the damage, unwritable -D"),
 "C13": ("4 (C13)", "seeded differential simulation: a junk-laden stream (file or TCP, arbitrary read boundaries) against its accepted subsequence replayed at identical simulated processing times; oracle: identical tables (all fields, time stamps included) after every accepted group and at the end; reader consumed the whole stream; stalled peers (line tails 10-40 s late), floods of 65 536+ junk lines"),
 "C01": ("4 (C01)", "seeded hostile line histories x option vectors x feed faults (chunking, EINTR, resets, EOF mid-line, clock ticks and jumps, streams of 215 000+ frames) in two build profiles (overflow checks on / release-like); oracle: no panic, no wedge, file source returns Ok after EOF, sentinel frame after hostile input is applied"),
}
TECH = "deterministic simulation with fault injection: seeded search over event scripts (arrivals, channel and feed faults, simulated clock) executed against the real reader thread through clock / transport / stdout seams; invariants after every event and reference-model checks over the recorded history; minimised replay files"

NA = {
 "C02": "pure function of the characters of one line (digit count, DF-vs-length, parity): no history, time, fault or I/O behaviour in statement or quantifier; its stream-level consequence is decided as C13",
 "C05": "pure function of the 12/13-bit altitude field of one frame; 'first frame or update, with/without -U/-R' are configurations, not histories with time or faults",
 "C06": "pure function of the 13-bit identity field of one frame",
 "C07": "pure function of 48 ME/MB bits plus 8 type/category bits of one frame",
 "C09": "pure function of the ME field of one frame; its history-flavoured clause (same values on first and later frames, with and without -U) is decided inside C11 and C19",
 "C14": "pure function of (row state, -i set): rendering has no schedule, clock, fault or ordering in it",
 "C15": "pure function of (table content, -o); the only nondeterminism (HashMap RandomState order before the address sort) has no seam short of rewriting the public table type, so a simulator can neither control nor replay it",
 "C17": "pure function of a 24-bit address (2^24 cases: an enumeration problem, not a simulation target)",
}
PENDING = "check designed in DESIGN.md section 4 but not built yet in this tree; not claimed until it runs"

def main():
    props = [json.loads(l) for l in open(os.path.join(ROOT, "properties.jsonl"))]
    try:
        hooks = subprocess.check_output(["git", "-C", "/repo", "log", "--format=%H", "--grep=^verif hook"], text=True).split()
    except Exception:
        hooks = []
    checks, na = [], []
    for p in props:
        i = p["id"]
        if i in CLAIMED:
            ref, text = CLAIMED[i]
            checks.append({
                "property_id": i,
                "quick_cmd": f"./bin/simcheck run {i} --tier quick",
                "thorough_cmd": f"./bin/simcheck run {i} --tier thorough",
                "evidence_file": f"/verif/evidence/{i}.json",
                "replay_cmd_template": "./bin/simcheck replay {path}",
                "engine": "simcheck",
                "level_claimed": {"category": "exploration", "text": text, "design_ref": f"DESIGN.md section {ref}"},
                "level_note": "trusted base: the harness's frame encoder / CRC-24 / reference models (unit-tested against literature vectors), the patched chrono copy (only Utc::now() changed), rustc/std (BufRead::lines, HashMap), clap; seeded sampling - a clean batch is evidence, not proof",
                "technique": TECH,
            })
        else:
            na.append({"property_id": i, "reason": NA.get(i, PENDING)})
    m = {
        "version": 1,
        "setup_cmd": "cd /verif/sim && CARGO_NET_OFFLINE=true cargo build --offline --profile simdebug -p simcheck && CARGO_NET_OFFLINE=true cargo build --offline --profile simrelease -p simcheck",
        "hooks": {
            "guard": "squitterator_verif",
            "enable": "rustflags --cfg squitterator_verif (set in /verif/sim/.cargo/config.toml); /repo's sources are compiled through the shadow manifest /verif/sim/shadow/Cargo.toml ([lib] path = /repo/src/lib.rs) with the dependency `chrono` resolved to /verif/sim/chrono-sim (chrono 0.4.40 verbatim, only Utc::now() consults the simulated clock)",
            "baseline_off_cmd": "cd /repo && cargo test --workspace --no-fail-fast --offline",
            "source_commits": hooks,
            "add_only": True,
        },
        "engines": [{"name": "simcheck", "path": "/verif/sim/simcheck", "serves_properties": sorted(CLAIMED), "kind_free_text": "deterministic simulator: discrete-event clock, scripted transport/file/stdout seams, seeded script generator, reference-model oracles, delta-debugging minimiser, replay"}],
        "checks": checks,
        "not_applicable": na,
        "notes": "exit codes: 0 held (possibly with KNOWN-FINDING lines), 1 VIOLATION, 2 harness error (never a verdict). VERIF_SEED / VERIF_TIER / VERIF_BUDGET_S / VERIF_JOBS are honoured.",
    }
    json.dump(m, open(os.path.join(ROOT, "MANIFEST.json"), "w"), indent=1)
    print("claimed:", sorted(CLAIMED), "not_applicable:", [x["property_id"] for x in na])

main()
