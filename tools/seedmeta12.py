#!/usr/bin/env python3
"""Copies round-12 seeded changes from /tmp/wt12/<P>/out/<mutN> into /verif/seeded/<P>-<mutN>/ with meta.json."""
import json, os, shutil
meta = {
 "C01-mut25": ("C01", "the 15 optional-column blocks of simple_display.rs are merged into one column() helper that pads with \" \".repeat(width - text.len())", "a value wider than its column (a TC19 vertical rate of -10048 ft/min or steeper, a heading raw value >= 1000, a wrapped GNSS altitude) panics the reader at the next refresh"),
 "C01-mut26": ("C01", "the last-contact age column uses signed_duration_since(..).to_std().expect(..)", "a refresh while a row's time stamp lies in the future (backward clock step) panics the reader"),
 "C03-mut25": ("C03", "reminder(), crc56 and crc112 merged into one whole-frame syndrome(); get_icao gets a merged 11|17|18 if syndrome != 0 => None arm", "an all-call reply (DF11) with a non-zero interrogator code gets no address and no row"),
 "C03-mut26": ("C03", "Planes::cleanup ages rows by position_timestamp.unwrap_or(timestamp)", "a live aircraft whose last position fix is delete_after seconds old is deleted by a sweep triggered by another aircraft's frames"),
 "C04-mut25": ("C04", "the format tables of reminder() and get_icao() merged into parity_field(df); the three plain-parity formats share one reminder >> 7 arm", "DF17/18 frames with a remainder of 1..127 (errors confined to the last 7 bits) are accepted"),
 "C04-mut26": ("C04", "parity refusals are logged at most once per second; note() returns false inside the quiet second and the continue hangs on its result", "a second damaged DF11/17/18 frame within one second of a reported refusal is applied"),
 "C08-mut25": ("C08", "signed_lon and fixed_lat merged into signed_angle(angle, limit) that keeps only the upper fold", "airborne pairs at northern latitudes in [6m, 6.1017m) degrees (about 12 % of northern latitudes) never produce a position"),
 "C08-mut26": ("C08", "the 10 s pairing window subtracts times of day (cpr_time[0].time() - cpr_time[1].time())", "a genuine pair straddling 00:00 UTC is rejected; halves a whole number of days (+-10 s) apart are paired"),
 "C10-mut25": ("C10", "Mds::update and Plane::update_from_mode_s merged into Mds::decode_mb; the row copies whatever is Some from the decoded reply", "a BDS 3,0 reply without an advisory no longer clears the ACAS threat flag (the property pins the flag's value only when it changes: not judged, see DESIGN.md)"),
 "C10-mut26": ("C10", "a DF20/21 reply with the gate open whose MB matches no register no longer refreshes the row's time stamp", "an aircraft heard only through such replies for delete_after seconds is swept and loses its recorded CA and 1,7 flags"),
 "C11-mut25": ("C11", "BDS 2,0 in DF20/21 is routed through the identification-squitter helper update_from_ext_1_4", "a BDS 2,0 reply overwrites the emitter category with (4,0)"),
 "C11-mut26": ("C11", "on the default path the time-stamp refresh moves into the typed Ext/Srt/Mds implementations under their icao.is_some() guards", "DF18 frames no longer keep a row alive without -U: an aircraft heard only through DF18 is swept and loses callsign and squawk"),
 "C12-mut25": ("C12", "the frame-count sweep gate and the refresh gate are merged: the sweep runs only inside display_planes", "quiet mode or a long -u: expired rows are never swept or outlive the 12-frame bound"),
 "C12-mut26": ("C12", "the row age is held as NaiveTime::MIN + elapsed, which wraps at 24 h", "a row silent for 2 days + 5 s, or exactly 7 days, survives the sweep"),
 "C13-mut25": ("C13", "one parity_field() table serves reminder() and get_icao(); the merged arm applies reminder >> 7 to DF17/18 as well as DF11", "a squitter damaged only in its last 7 parity bits is accepted: ghost row / changed row"),
 "C13-mut26": ("C13", "now is sampled at the top of the loop, before the blocking lines.next()", "over TCP a junk line arriving after a pause absorbs the stale clock reading: junk-laden and clean tables differ"),
 "C16-mut25": ("C16", "get_downlink_format reports DF18 as 17 and the || 18 special cases are dropped", "-f 18 admits nothing, -f 17 admits DF18, -c counts DF18 under DF17"),
 "C16-mut26": ("C16", "a forced sweep after a silence of delete_after seconds; its last_frame mark is refreshed above the -f filter", "frames the filter excludes hide the silence - or trigger the sweep - and so change the table"),
 "C18-mut25": ("C18", "crc56, crc112 and the fold in reminder merged into one length-agnostic parity helper; get_message no longer ties short DFs to 56-bit and long DFs to 112-bit frames", "a peer closing the connection exactly 14 hex digits into a DF20 frame: the Comm-B decode panics, the reader dies"),
 "C18-mut26": ("C18", "connect_and_read_tcp tracks the start of an outage on the wall clock and builds Duration::from_secs_f64(ms / 1000.0) on every failed attempt", "the clock steps backward during a run of refusals: negative value, panic, retries stop"),
 "C19-mut25": ("C19", "the default path's surface (TC 5-8) and airborne (TC 9-18) handlers merged into amend_from_ext_5_18: the surveillance-status assignment runs for surface frames too", "airborne frame, later a surface frame: status blank without -U, kept with -U"),
 "C19-mut26": ("C19", "the default path stamps rows with Utc::now().trunc_subsecs(0); -U keeps sub-second precision", "an even/odd pair 9-10 s apart at an unlucky sub-second phase is rejected without -U and decoded with -U"),
}
root='/verif/seeded'
for k,(prop,what,needs) in meta.items():
    p,m=k.split('-')
    src=f'/tmp/wt12/{p}/out/{m}'
    if not os.path.isdir(src): print("missing", src); continue
    dst=f'{root}/{k}'
    os.makedirs(dst,exist_ok=True)
    for f in os.listdir(src):
        if os.path.isfile(os.path.join(src,f)): shutil.copy(os.path.join(src,f),os.path.join(dst,f))
    demo='demo.rs' if os.path.exists(dst+'/demo.rs') else 'demo.sh'
    json.dump({"id":k,"property":prop,"change":what,"needs_to_manifest":needs,"written_by":"independent sub-agent (round 12: one de-duplication refactor that loses a special case, one time-handling defect per property) that saw only the property record, a scratch worktree of /repo and a list of ideas already used",
      "demonstration":demo,
      "confirmed":"tools/seedeval.sh in a scratch worktree: patch applies; `cargo test --workspace --offline` 66 unit tests + 2 doctests pass with the patch; demonstration passes on the unchanged tree and fails with the patch",
      "how_to_run_demo": ("copy demo.rs to tests/demo_seed.rs in a worktree of /repo and run `cargo test --offline --test demo_seed`" if demo=='demo.rs' else "run `bash demo.sh` from the root of a worktree of /repo"),
      "caught_by":[]}, open(dst+'/meta.json','w'), indent=1)
print("copied", len(meta))
