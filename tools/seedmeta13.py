#!/usr/bin/env python3
"""Copies round-13 seeded changes from /tmp/wt13/<P>/out/<mutN> into /verif/seeded/<P>-<mutN>/ with meta.json."""
import json, os, shutil
meta = {
 "C01-mut27": ("C01", "Planes::print marks a row flying less than 1000 ft below the row printed above it, with upper - own on u32 altitudes, assuming the list is sorted highest first", "two aircraft, any -o that does not end in A, a refresh: subtract overflow panics the reader (overflow-checked build)"),
 "C01-mut28": ("C01", "callsign characters are looked up in a character string that is one character short (63 bytes)", "an identification frame or BDS 2,0 reply containing 6-bit character code 63: index out of bounds, the reader dies"),
 "C03-mut27": ("C03", "the even/odd CPR pair handed to the decoder is a thread-local scratch in which only the half that just arrived is written", "A-even, A-odd, B-odd, A-even: row A is decoded from B's odd half"),
 "C03-mut28": ("C03", "update_aircraft and cleanup take the table lock with try_write()", "only while another thread holds a guard on the public table: frames are dropped (neither the program nor the simulator has such a thread: not judged, see DESIGN.md)"),
 "C04-mut27": ("C04", "a 16-slot thread-local cache of already verified extended squitters keyed by format byte, ME and PI - without the 24 address bits", "after a valid squitter of X a copy damaged only in bits 9..32 is accepted: ghost row or another aircraft's row overwritten"),
 "C04-mut28": ("C04", "get_message accepts a remainder of zero or with exactly one bit set", "all single parity-bit errors on DF17/18 (and 17 of them on DF11) are applied"),
 "C08-mut27": ("C08", "the CPR decode reads a thread-local scratch pair that is reloaded from the row only when icao as u16 differs", "two aircraft sharing the low 16 address bits, frames interleaved A-even, B-even, A-odd: A is decoded with B's even half"),
 "C08-mut28": ("C08", "a keep-the-last-good-altitude early return for an undecodable altitude code also skips the CPR store", "a valid pair with a frame at -1000..-25 ft gets no position"),
 "C10-mut27": ("C10", "A's BDS 3,0 resolution advisory with TTI=1 also sets threat_encounter on the row whose address is in the TID field", "B's flag changes with no capability recorded for B, no -R and no reply from B"),
 "C10-mut28": ("C10", "BDS 4,4 is tried before 5,0 / 6,0 when the 1,7 report advertises 4,4", "a valid 6,0 reply that also passes the loose 4,4 test is consumed as meteorological data: heading, IAS, Mach and vertical rate are not decoded"),
 "C11-mut27": ("C11", "after an identification frame every other row with the same callsign has its callsign blanked", "two aircraft with the same flight ID erase each other's callsign"),
 "C11-mut28": ("C11", "a blank-flight-ID guard in the identification handlers also covers the emitter-category assignment", "a TC 1-4 frame with an all-blank ID no longer updates the category"),
 "C12-mut27": ("C12", "a static callsign -> address map removes the superseded row when a second address reports the same callsign", "two aircraft with the same callsign: the first vanishes although heard milliseconds ago"),
 "C12-mut28": ("C12", "update_aircraft takes the table lock with try_write()", "only while another thread holds a read lock on the table: the frame is dropped and the age does not restart (no such thread exists in the program or the simulator: not judged, see DESIGN.md)"),
 "C13-mut27": ("C13", "lines are read with a 64 KiB bound; the skipping-an-over-long-line flag is a static", "a connection that ends inside a junk line longer than 64 KiB makes the next connection lose its first valid line"),
 "C13-mut28": ("C13", "a bare CR also ends a line", "the junk line <14 digits><CR><valid frame> (42 digits as a whole) adds a ghost row"),
 "C16-mut27": ("C16", "the -f verdict per format is memoised in a static [AtomicU8; 32]", "only with a second reader session in the same process under a different -f list (the program runs one option set per process: not judged, see DESIGN.md)"),
 "C16-mut28": ("C16", "counts of 100 000 or more print as DF17:100k in the -c line", "100 001 frames of one format"),
 "C18-mut27": ("C18", "the sweep keeps the row age in a scratch variable outside the retain closure and refreshes it only for rows stamped at or before now", "a row stamped ahead of now (clock set back during an outage) inherits the age of the row visited before it and is deleted with a genuinely expired one"),
 "C18-mut28": ("C18", "a feed-was-away-for-delete_after-seconds-so-empty-the-table-on-reconnect feature whose feed_seen mark is set at connect and never refreshed", "any session longer than delete_after followed by an immediate reconnect wipes the table"),
 "C19-mut27": ("C19", "merge_duplicates() runs at every screen refresh and keeps only the latest-heard row per callsign", "two aircraft sharing a callsign: table membership depends on -i Q / -u"),
 "C19-mut28": ("C19", "an error! for altitudes above 45000 ft takes gillham_reading(..)? as an argument; the ? is evaluated only when a logger is installed", "with -l, valid altitudes from 45025 to 50175 ft decode to no altitude"),
}
root='/verif/seeded'
for k,(prop,what,needs) in meta.items():
    p,m=k.split('-')
    src=f'/tmp/wt13/{p}/out/{m}'
    if not os.path.isdir(src): print("missing", src); continue
    dst=f'{root}/{k}'
    os.makedirs(dst,exist_ok=True)
    for f in os.listdir(src):
        if os.path.isfile(os.path.join(src,f)): shutil.copy(os.path.join(src,f),os.path.join(dst,f))
    demo='demo.rs' if os.path.exists(dst+'/demo.rs') else 'demo.sh'
    json.dump({"id":k,"property":prop,"change":what,"needs_to_manifest":needs,"written_by":"independent sub-agent (round 13: one defect that needs two aircraft or two connections, one free choice per property) that saw only the property record, a scratch worktree of /repo and a list of ideas already used",
      "demonstration":demo,
      "confirmed":"tools/seedeval.sh in a scratch worktree: patch applies; `cargo test --workspace --offline` 66 unit tests + 2 doctests pass with the patch; demonstration passes on the unchanged tree and fails with the patch",
      "how_to_run_demo": ("copy demo.rs to tests/demo_seed.rs in a worktree of /repo and run `cargo test --offline --test demo_seed`" if demo=='demo.rs' else "run `bash demo.sh` from the root of a worktree of /repo"),
      "caught_by":[]}, open(dst+'/meta.json','w'), indent=1)
print("copied", len(meta))
