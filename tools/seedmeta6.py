#!/usr/bin/env python3
"""Copies round-6 seeded changes from /tmp/wt6/<P>/out/<mutN> into /verif/seeded/<P>-<mutN>/ with meta.json."""
import json, os, shutil
meta = {
 "C01-mut13": ("C01", "reset_timestamp moves the refresh mark forward in whole --update intervals", "-u 0 and the first screen refresh at least one second after start: the reader thread loops for ever"),
 "C01-mut14": ("C01", "the short/long gate in get_message accepts 14-digit lines with DF <= 16 instead of DF < 16", "a 14-digit line starting with 80..87 (DF16) reaches crc112: index out of bounds"),
 "C13-mut13": ("C13", "a pre-filter that runs only with -f reads the first two bytes of 14- and 28-byte lines with from_utf8(..)?", "-f given and a junk line of exactly 14 or 28 bytes whose first two bytes are not valid UTF-8: read_lines returns Err, the rest of the stream is dropped"),
 "C13-mut14": ("C13", "clean_squitter collects digits with .take(40)", "a junk line with 41 or more hex digits whose first 40 are a stamp plus a valid long frame: accepted"),
 "C18-mut13": ("C18", "the pause after a failed connect becomes max(5, update) seconds", "--tcp with --update above 5 (e.g. 30): a refused connection is not retried for 30 s"),
 "C18-mut14": ("C18", "a counter of failed attempts since the last success; the pause only applies when it exceeds 1", "the first refusal of each run of failures is retried immediately"),
 "C12-mut13": ("C12", "frames excluded by -f restart the time stamp of an existing row (Planes::still_heard)", "-f plus an aircraft heard only through excluded formats for delete_after seconds: it stays in the table"),
 "C12-mut14": ("C12", "cleanup counts only frames of already tracked aircraft towards the sweep", "an expired row followed by 12 row-creating frames of new addresses: the due sweep does not happen"),
 "C03-mut13": ("C03", "the -f filter is moved ahead of address recovery and made family-aware: -f 4 keeps DF20 (-f 5 keeps DF21) but processes it as the short format", "-f 4 without 20 (or -f 5 without 21) and a DF20 (DF21) frame: filed under an address it does not encode"),
 "C03-mut14": ("C03", "the != 0 address filters become (1..ADDRESS_MAX).contains(), exclusive upper bound", "frames of address FFFFFF are dropped for all nine formats"),
 "C04-mut13": ("C04", "with -M d a frame of a traced format that fails parity is logged as refused and then falls through and is applied", "--log-messages=11, 17 or 18 plus a damaged frame of that format"),
 "C04-mut14": ("C04", "the parity remainder is masked with (1 << 23) - 1", "a single error in the first parity bit (bit 89 of DF17/18, bit 33 of DF11) is accepted"),
 "C16-mut13": ("C16", "a frame whose format is named by -M is never rejected by the -f filter", "-f and -M together with -M naming a format that is not in the -f list"),
 "C16-mut14": ("C16", "the -c counter line drops any format whose count is exactly 1", "any format seen exactly once"),
 "C19-mut13": ("C19", "DF20/21 frames of a known aircraft take the address-only path when -i contains none of A, s, a, w", "-i e or -i Q: DF20 altitude / DF21 squawk missing"),
 "C19-mut14": ("C19", "the default path's airborne-position range starts at type code 10 instead of 9", "TC 9 frames are applied only with -U"),
 "C08-mut13": ("C08", "an observer whose latitude or longitude is exactly 0 is treated as not configured", "-O with a zero coordinate (e.g. 51.4779, 0): distance column empty or stale"),
 "C08-mut14": ("C08", "the odd-frame zone count max(NL-1, 1) is off by one only for NL = 2", "an odd-anchored pair at 86.535 <= |lat| < 87: longitude hundreds of km off"),
 "C10-mut13": ("C10", "relaxed = args.relaxed || args.use_update_method in update_aircraft", "-U without -R: Comm-B replies decoded for aircraft with no capability >= 4 and no BDS 1,7 report"),
 "C10-mut14": ("C10", "BDS 5,0 ground-speed range (0..=600) became (0..600)", "a valid BDS 5,0 register with ground speed exactly 600 kt is not recognised"),
 "C11-mut13": ("C11", "-U path: GNSS height base is altitude_gnss.or(altitude)", "-U: every further TC19 frame adds its GNSS/baro difference again (re-feeding the same frame changes the row)"),
 "C11-mut14": ("C11", "Ext::update_mt_5_18 arm 9..=18 became 9..18", "default path: a TC 18 airborne-position frame blanks altitude and surveillance status"),
}
root='/verif/seeded'
for k,(prop,what,needs) in meta.items():
    p,m=k.split('-')
    src=f'/tmp/wt6/{p}/out/{m}'
    if not os.path.isdir(src): print("missing", src); continue
    dst=f'{root}/{k}'
    os.makedirs(dst,exist_ok=True)
    for f in os.listdir(src):
        if os.path.isfile(os.path.join(src,f)): shutil.copy(os.path.join(src,f),os.path.join(dst,f))
    demo='demo.rs' if os.path.exists(dst+'/demo.rs') else 'demo.sh'
    json.dump({"id":k,"property":prop,"change":what,"needs_to_manifest":needs,"written_by":"independent sub-agent (round 6: one configuration-dependent change, one boundary / off-by-one change per property) that saw only the property record, a scratch worktree of /repo and a list of ideas already used",
      "demonstration":demo,
      "confirmed":"tools/seedeval.sh in a scratch worktree: patch applies; `cargo test --workspace --offline` 66 unit tests + 2 doctests pass with the patch; demonstration passes on the unchanged tree and fails with the patch",
      "how_to_run_demo": ("copy demo.rs to tests/demo_seed.rs in a worktree of /repo and run `cargo test --offline --test demo_seed`" if demo=='demo.rs' else "run `bash demo.sh` from the root of a worktree of /repo"),
      "caught_by":[]}, open(dst+'/meta.json','w'), indent=1)
print("copied", len(meta))
