#!/usr/bin/env python3
"""Copies round-7 seeded changes from /tmp/wt7/<P>/out/<mutN> into /verif/seeded/<P>-<mutN>/ with meta.json."""
import json, os, shutil
meta = {
 "C01-mut15": ("C01", "Plane::update also sends DF4/DF5 replies into the Comm-B register decoder when the gate is open", "-U, an existing row, an open gate (-R or CA >= 4) and a 56-bit DF4/DF5 frame: index out of bounds panic"),
 "C01-mut16": ("C01", "is_time_to_refresh compares num_milliseconds() > update * 1000", "--update beyond +-9.22e15 (e.g. i64::MAX / MIN), a display that is not quiet, overflow-checked build: multiply overflow panic at the first accepted frame"),
 "C13-mut15": ("C13", "after every reconnect connect_and_read_tcp discards input up to the first newline ('resynchronisation')", "a second or later TCP session whose first line is valid: dropped, unless a junk line at position 0 absorbs the discard - the junk-laden and the clean table differ"),
 "C13-mut16": ("C13", "map_while(|l| l.ok().filter(|l| l.len() <= MAX_LINE)) with MAX_LINE = 64 KiB", "one line longer than 65 536 bytes ends the iteration silently: the rest of the file / session is dropped"),
 "C18-mut15": ("C18", "a session that starts with rows already in the table builds its counters with unguarded chrono arithmetic (now - Duration::seconds(update))", "--update=i64::MAX plus any reconnect after an aircraft was learned: the reader thread panics"),
 "C18-mut16": ("C18", "the env_logger format closure .expect()s the log-file write (src/logger.rs)", "-l pointing at an unwritable / full target (/dev/full) and a refused connection: the error! panics the reader thread"),
 "C12-mut15": ("C12", "a frame arriving for a row already silent >= delete_after but not yet swept only removes the row and is itself dropped", "such a frame: the aircraft was just heard but is in no row until its next frame"),
 "C12-mut16": ("C12", "-U path update_cpr: self.timestamp = self.cpr_time[cpr_form] (reversed assignment)", "-U and a DF17/18 position squitter: the last-contact time is reset to the stale CPR time, the row is swept while heard"),
 "C03-mut15": ("C03", "a cache for verbatim-repeated lines reuses the last kept frame's (DF, address) pair", "a frame dropped by -f (or the zero-address rule) and then repeated is applied under the previous frame's address"),
 "C03-mut16": ("C03", "get_downlink_format adds .filter(|&df| df != 0)", "every DF0 frame: accepted, right address, but no row"),
 "C04-mut15": ("C04", "the expiry sweep moves to the top of the read loop and runs for every line", "lines that fail parity advance the sweep counter and run the sweep: a damaged squitter removes a stale row"),
 "C04-mut16": ("C04", "a DF17/18 frame that fails parity resets the timestamp of the row named by its unverified AA field (Planes::still_on_air)", "a damaged squitter of a tracked aircraft: only the time stamp of its row changes"),
 "C16-mut15": ("C16", "the -f list is only honoured when -i does not contain Q", "-f together with -i Q: frames of every format are applied"),
 "C16-mut16": ("C16", "-c skips DF11 frames whose parity field carries a non-zero interrogator code", "DF11 all-call replies with a non-zero interrogator code: applied but not counted"),
 "C19-mut15": ("C19", "display_planes calls Planes::fade_positions(now, delete_after): positions older than -d seconds are zeroed at a refresh", "-i Q or -u decide whether a still-tracked aircraft keeps its decoded position"),
 "C19-mut16": ("C19", "-U path update_from_ext_20_22 no longer sets surveillance_status", "-U, a TC 20-22 frame that is not the aircraft's first, with a different status: the row keeps the old status"),
 "C08-mut15": ("C08", "the periodic sweep also blanks lat/lon/distance of a live row whose position is delete_after seconds old", "a row that keeps being heard without a valid pair loses its shown position"),
 "C08-mut16": ("C08", "observer string parsing: the whitespace filter became trim_start()", "-O with a blank before the comma or a trailing blank: silently not parsed, distances refer to the previous observer"),
 "C10-mut15": ("C10", "BDS 5,0 and 6,0 decoding is and-ed with 'the aircraft's latest DF17 was not TC 5-8'", "valid advertised 5,0 / 6,0 replies after a surface squitter are dropped"),
 "C10-mut16": ("C10", "is_bds_4_0: goodflags(message, 33, 72, 79) became goodflags(message, 0, 72, 79) (always false)", "a reply with MB 40-47 reserved bits set decodes as BDS 4,0"),
 "C11-mut15": ("C11", "display_planes resets surveillance status 'T'/'S' to 'N' after printing", "a run that draws the table loses SPI / temporary alert after the first refresh although no frame changed them"),
 "C11-mut16": ("C11", "amend_from_ext_31: adsb_version = max(old, new)", "default path: a TC 31 frame announcing a lower version no longer replaces the shown one"),
}
root='/verif/seeded'
for k,(prop,what,needs) in meta.items():
    p,m=k.split('-')
    src=f'/tmp/wt7/{p}/out/{m}'
    if not os.path.isdir(src): print("missing", src); continue
    dst=f'{root}/{k}'
    os.makedirs(dst,exist_ok=True)
    for f in os.listdir(src):
        if os.path.isfile(os.path.join(src,f)): shutil.copy(os.path.join(src,f),os.path.join(dst,f))
    demo='demo.rs' if os.path.exists(dst+'/demo.rs') else 'demo.sh'
    json.dump({"id":k,"property":prop,"change":what,"needs_to_manifest":needs,"written_by":"independent sub-agent (round 7: one interaction defect, one 'subtlest possible' change per property) that saw only the property record, a scratch worktree of /repo and a list of ideas already used",
      "demonstration":demo,
      "confirmed":"tools/seedeval.sh in a scratch worktree: patch applies; `cargo test --workspace --offline` 66 unit tests + 2 doctests pass with the patch; demonstration passes on the unchanged tree and fails with the patch",
      "how_to_run_demo": ("copy demo.rs to tests/demo_seed.rs in a worktree of /repo and run `cargo test --offline --test demo_seed`" if demo=='demo.rs' else "run `bash demo.sh` from the root of a worktree of /repo"),
      "caught_by":[]}, open(dst+'/meta.json','w'), indent=1)
print("copied", len(meta))
