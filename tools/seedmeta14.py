#!/usr/bin/env python3
"""Copies round-14 seeded changes from /tmp/wt14/<P>/out/<mutN> into /verif/seeded/<P>-<mutN>/ with meta.json."""
import json, os, shutil
meta = {
 "C01-mut29": ("C01", "a CPR outlier filter needs the previous fix's time stamp; a 'track lost' branch (halves 60 s or more apart) clears position_timestamp but keeps lat/lon", "a first fix, a pause of 60 s or more, then one half and the other half: the reader panics with 'fix without a time stamp'"),
 "C01-mut30": ("C01", "-o d / -o D sort on the f64 distance with partial_cmp(..).expect(..)", "-O nan,nan, two or more rows of which one has a decoded position, -o d and a screen refresh: the reader panics"),
 "C03-mut29": ("C03", "the sweep parks the last expired row in a thread-local spare; the next newcomer's row is rebuilt in it by a reset that forgets category and adsb_version", "A's identification frame, A silent and swept, then a first frame of C: C's row carries A's category"),
 "C03-mut30": ("C03", "get_message retries a rejected 26/40-digit time-stamped line by reading its first 14/28 digits as the frame", "a noise-hit frame behind a stamp that begins like DF0/4/5 (DF16/20/21 for long frames): a ghost row under an address nobody sent"),
 "C04-mut29": ("C04", "reminder() caches the division over the first 32 bits; the partial remainder is stored at once, the key only on accept", "valid X, a refused frame of Z, then Z's valid squitter with X's address in bits 9..32 is accepted and changes X's row"),
 "C04-mut30": ("C04", "56-bit frames are copied left-aligned into a fixed 28-nibble buffer, so the DF11 >> 7 test looks at the wrong bits", "a DF11 with a 9-bit burst in the parity field is accepted (ghost row); valid DF11 with a non-zero interrogator code are dropped"),
 "C08-mut29": ("C08", "a row flag cpr_resync (reception resumed after 10 s or more of silence) is set after the dispatch instead of before, so update_position consumes it one frame late", "row exists, 10 s or more of silence, position frame p, then frame 1-p: the fresh half p is zeroed and the valid pair is not decoded"),
 "C08-mut30": ("C08", "the type-code match of update_position becomes a helper with Range constants; the airborne range is the half-open 9..18", "a valid TC 18 even/odd pair is stored but never decoded"),
 "C10-mut29": ("C10", "a BDS 1,7 report heard before the DF11 is parked and copied in after decoding", "P (1,7), DF11 CA=5, Q (1,7): the stale P overwrites the newer Q, and a reply Q advertises is dropped"),
 "C10-mut30": ("C10", "with -R the BDS 1,7 arm is skipped", "a 1,7 report that also passes the 4,0 rules is decoded as BDS 4,0 (selected altitude) under -R"),
 "C11-mut29": ("C11", "a BDS 1,7 report is OR-merged into the remembered capability instead of replacing it", "1,7 report with 6,0, a 1,7 report without 6,0, then a 6,0 reply (no -R, CA >= 4): the withdrawn register is still decoded"),
 "C11-mut30": ("C11", "a row silent for 30 s or more (under the sweep age) has ground speed, track and vertical rate blanked by the next DF < 20 frame that does not carry them", "velocity known, 30-60 s of silence, then e.g. a DF11 (default path, no -U)"),
 "C12-mut29": ("C12", "a down_since outage memo flushes the table on reconnect after an outage of delete_after seconds or more; the memo is never cleared by a successful connect", "connect, drop, reconnect with frames, drop, reconnect: the outage is measured from the first drop and a row heard a moment ago is flushed"),
 "C12-mut30": ("C12", "rows squawking 7500 / 7600 / 7700 get delete_after x 5 in the sweep", "an emergency-squawk row silent for more than delete_after survives the sweep"),
 "C13-mut29": ("C13", "a per-stream StampTracker ('two time-stamped lines in a row mean bare 14/28-digit lines are cut lines') is fed every line's digit count before the line is validated", "a rejected 26/40-digit line next to exactly one accepted stamped line, then an accepted bare frame: that and every later bare frame of the stream are dropped"),
 "C13-mut30": ("C13", "clean_squitter truncates a rejected line for its log message with &line[..96]", "a rejected line longer than 96 bytes with a multi-byte character across byte 96: the reader panics, the rest of the feed is not read"),
 "C16-mut29": ("C16", "the counter of the last-seen format lives in a hot slot that is written back to the map only the first time that format is left", "formats X, Y, X and then a non-X frame: -c shows X (and Y) one short"),
 "C16-mut30": ("C16", "Args::df_filter() drops -f values of 32 or more and treats the resulting empty list as no filter", "-f 32 admits every frame instead of none"),
 "C18-mut29": ("C18", "a 'feed lost framing' guard (32 malformed lines in a row end the session) whose state is reset only when a stream ends normally, not on the guard's own exit", "good frames, 32 or more malformed lines on one connection, then a connection whose first line is malformed: that healthy connection is dropped before any of its frames is read"),
 "C18-mut30": ("C18", "@-framed lines lose their 12 time-stamp digits through an unchecked slice digits[12..]", "a peer that closes fewer than 12 hex digits into an @ line: the reader panics and never reconnects"),
 "C19-mut29": ("C19", "reset_timestamp becomes start_period, which also resets the sweep counter at every screen refresh", "a slow feed (fewer than 11 frames per -u seconds, or -u <= 0) with the table displayed: the sweep never fires, a silent aircraft stays; with -i Q it is swept"),
 "C19-mut30": ("C19", "the nested -M and -f tests are collapsed into if <-M selects df> { error! } else if <-f rejects df> { continue }", "a frame selected by -M skips the -f filter: -f 11 -f 5 -M 17 decodes DF17 aircraft"),
}
root='/verif/seeded'
for k,(prop,what,needs) in meta.items():
    p,m=k.split('-')
    src=f'/tmp/wt14/{p}/out/{m}'
    if not os.path.isdir(src): print("missing", src); continue
    dst=f'{root}/{k}'
    os.makedirs(dst,exist_ok=True)
    for f in os.listdir(src):
        if os.path.isfile(os.path.join(src,f)): shutil.copy(os.path.join(src,f),os.path.join(dst,f))
    demo='demo.rs' if os.path.exists(dst+'/demo.rs') else 'demo.sh'
    json.dump({"id":k,"property":prop,"change":what,"needs_to_manifest":needs,"written_by":"independent sub-agent (round 14: one defect that needs an ordered history of at least three steps, one free choice per property) that saw only the property record, a scratch worktree of /repo and a list of ideas already used",
      "demonstration":demo,
      "confirmed":"tools/seedeval.sh in a scratch worktree: patch applies; `cargo test --workspace --offline` 66 unit tests + 2 doctests pass with the patch; demonstration passes on the unchanged tree and fails with the patch",
      "how_to_run_demo": ("copy demo.rs to tests/demo_seed.rs in a worktree of /repo and run `cargo test --offline --test demo_seed`" if demo=='demo.rs' else "run `bash demo.sh` from the root of a worktree of /repo"),
      "caught_by":[]}, open(dst+'/meta.json','w'), indent=1)
print("copied", len(meta))
