#!/bin/bash
# usage: seedeval_round.sh <worktree-root> <mutA> <mutB> ...   (evaluates every property dir under the root)
ROOT="$1"; shift
for p in $(ls "$ROOT"); do
  for m in "$@"; do
    [ -d "$ROOT/$p/out/$m" ] && /verif/tools/seedeval.sh "$ROOT/$p" "$ROOT/$p/out/$m" "$p-$m"
  done
done
