#!/bin/bash
# usage: [OWN=1] seedeval_round.sh <worktree-root> <mutA> <mutB> ...   (evaluates every property dir under the root;
# OWN=1 runs only the check of the property the change was written against)
ROOT="$1"; shift
for p in $(ls "$ROOT"); do
  for m in "$@"; do
    if [ -d "$ROOT/$p/out/$m" ]; then
      if [ -n "$OWN" ]; then CHECKS="$p" /verif/tools/seedeval.sh "$ROOT/$p" "$ROOT/$p/out/$m" "$p-$m"; else /verif/tools/seedeval.sh "$ROOT/$p" "$ROOT/$p/out/$m" "$p-$m"; fi
    fi
  done
done
