#!/bin/bash
# usage: seedeval.sh <worktree> <mutdir> <name>
# Confirms a seeded change (compiles, baseline tests pass with it, demo fails with it / passes without),
# then runs every quick check against it in /repo and reverts.  Prints a summary.
WT="$1"; MD="$2"; NAME="$3"
export CARGO_NET_OFFLINE=true
cd "$WT" || exit 2
git checkout -q -- . ; rm -rf tests; sleep 1; touch src/lib.rs src/main.rs
git apply --check "$MD/patch.diff" || { echo "RESULT $NAME patch-does-not-apply"; exit 1; }
mkdir -p tests
if [ -f "$MD/demo.rs" ]; then cp "$MD/demo.rs" tests/demo_seed.rs; DEMO="cargo test --offline --test demo_seed"; else DEMO="bash $MD/demo.sh"; cargo build --offline >/dev/null 2>&1; fi
$DEMO >/tmp/seed_$NAME.clean.log 2>&1; CLEAN=$?
git apply "$MD/patch.diff"; sleep 1; touch src/lib.rs src/main.rs
mv tests /tmp/seed_tests_$$; 
cargo test --workspace --offline >/tmp/seed_$NAME.base.log 2>&1; BASE=$?
NPASS=$(grep -E "^test result: ok\. 66 passed" /tmp/seed_$NAME.base.log | wc -l)
mv /tmp/seed_tests_$$ tests; cargo build --offline >/dev/null 2>&1
$DEMO >/tmp/seed_$NAME.mut.log 2>&1; MUT=$?
git checkout -q -- . ; rm -rf tests
echo "RESULT $NAME demo_clean_exit=$CLEAN baseline_exit=$BASE baseline_66=$NPASS demo_mutated_exit=$MUT"
if [ "$CLEAN" != 0 ] || [ "$BASE" != 0 ] || [ "$MUT" = 0 ]; then echo "RESULT $NAME NOT-CONFIRMED"; exit 1; fi
git -C /repo apply "$MD/patch.diff" || { echo "RESULT $NAME does-not-apply-to-repo"; exit 1; }
CAUGHT=""
for c in ${CHECKS:-C01 C03 C04 C08 C10 C11 C12 C13 C16 C18 C19}; do
  out=$(cd /verif && ./bin/simcheck run "$c" --tier quick 2>&1); code=$?
  rules=$(echo "$out" | grep -oE "rule=[A-Za-z0-9.-]+" | sort -u | tr '\n' ' ')
  echo "  $c exit=$code $rules"
  [ "$code" = 1 ] && CAUGHT="$CAUGHT $c[$rules]"
  [ "$code" = 2 ] && echo "$out" | grep -E "harness error" | head -3
done
git -C /repo checkout -q -- . ; rm -f /verif/replays/*.json
echo "RESULT $NAME CAUGHT-BY:$CAUGHT"
