#!/usr/bin/env python3
"""Copies round-4 seeded changes from /tmp/wt4/<P>/out/<mutN> into /verif/seeded/<P>-<mutN>/ with meta.json."""
import json, os, shutil
meta = {
 "C01-mut8": ("C01", "two sites: status_flag_and_range_value loses its 'status 0 = no status bit' case; temperature_4_4 starts calling it with status 0", "a DF20/21 reply whose MB field passes the BDS 4,4 checks (reached under -R or CA >= 4 on an existing row): panic in bit_location(0)"),
 "C01-mut9": ("C01", "128-entry table fast path for bare 14/28-digit lines in clean_squitter", "a line of exactly 14 or 28 bytes with only hex digits before a non-ASCII character: index out of bounds"),
 "C13-mut8": ("C13", "two sites: get_message drops its 14|28 length filter; clean_squitter strips the Beast time stamp by the '@' marker for any even digit count above 12", "a cut '@' line such as @05DCF1CD5559A0001838; reaches the field readers: panic (later lines never read) or ghost row"),
 "C13-mut9": ("C13", "NulFilter Read adaptor strips NUL padding below the line splitter and returns Ok(0) when an entire read was NUL", "a read consisting only of NUL bytes is taken for end of stream: the rest of the file / session is dropped"),
 "C18-mut8": ("C18", "two sites: read_lines hands read errors up with ?; connect_and_read_tcp returns fatally on any read_lines error when -D is set", "--tcp plus --downlink-log and a connection reset mid-line: the decoder ends"),
 "C18-mut9": ("C18", "a connect error without an OS error code is treated as an unusable address and ends the decoder", "a temporarily failing name lookup (or any connect error built without an OS code) is not retried"),
 "C12-mut8": ("C12", "two sites: contact-time refresh moved into the Srt/Ext impls only; Plane::new() starts at UNIX_EPOCH", "a row created by a DF20/21 first frame keeps the epoch time stamp until its second frame: huge age, swept while being heard"),
 "C12-mut9": ("C12", "a due sweep is skipped while the oldest row kept by the previous sweep is still in time; the bound lives in the per-session counters", "a reader session starting with a non-empty table (TCP reconnect): older rows are not swept until delete_after after the session start"),
 "C03-mut8": ("C03", "two sites: update_aircraft files a new row under downlink.icao(); Srt::update computes the short-reply address from bits 33-56 (wrong for the 112-bit DF16)", "an aircraft first heard on DF16: ghost row under a garbage key"),
 "C03-mut9": ("C03", "update_aircraft flags the intruder named in an ACAS RA report (BDS 3,0 with TTI=01 and TID equal to another tracked address)", "such a DF20/21 (or DF16) frame of aircraft A changes the row of the tracked aircraft B"),
 "C04-mut8": ("C04", "two sites: clean_squitter accepts 42-digit lines and sets a process-wide sticky flag; get_message retries a refused 28-digit line as its last 14 digits when the flag is set", "after any 42-digit line was seen, a corrupted DF17/18 whose bits 57-61 read DF0/4/5/11 creates a ghost row"),
 "C04-mut9": ("C04", "reminder() returns 0 for DF17/18 frames whose PI field is all zero ('parity blanked by the receiver')", "a squitter whose parity field is overwritten with 000000"),
 "C16-mut8": ("C16", "two sites: DF::from_message returns Err for the unassigned formats; the -c increment moves into the Ok arm of the decode", "accepted frames of DF1-3, 6-10, 12-15, 22, 23 are never counted"),
 "C16-mut9": ("C16", "lines dropped by hex-digit count before the parity check when the -f list names only one frame length; 'long wanted' computed as df > 16", "-f 16 or -f 5 -f 16: every DF16 frame silently lost"),
 "C19-mut8": ("C19", "two sites: Ext.category becomes None when the emitter category is 0; the default path copies dl.category instead of dl.message_type", "a TC1-4 frame with category 0 that is not the aircraft's first frame: default-path category stale, -U sets (tc,0)"),
 "C19-mut9": ("C19", "with -U and no -D the reader skips DF::from_message and inserts new aircraft via Plane::from_message", "under -U the logging option -D changes how each aircraft's first frame is decoded (e.g. squawk of a first DF21)"),
 "C08-mut8": ("C08", "two sites: Ext::update_mt_20_22 fills dl.cpr; amend_from_ext_20_22 calls amend_cpr", "default path: a TC 20-22 squitter interleaved between TC 9-18 frames overwrites the CPR slots: garbage or unsupported positions"),
 "C08-mut9": ("C08", "store_cpr fast path: a frame with the same parity and identical CPR fields is a 'relayed duplicate', cpr_time is not refreshed", "repeated frames from a hovering / parked target spanning the 10 s limit: the row keeps the old position or pairs too-old frames"),
 "C08-mut10": ("C08", "nl() rewritten as const array + partition_point with one constant transposed (44.19454951 -> 44.19544951)", "a pair within 100 m poleward of +-44.19455 deg: longitude off by 14-316 km / zone-straddling pair decoded"),
 "C10-mut8": ("C10", "two sites: Plane::update remembers the last Comm-B payload even while the gate is closed; update_from_mode_s returns early on a repeated payload", "a reply heard before a capability >= 4 was recorded is never decoded when it comes back unchanged afterwards"),
 "C10-mut9": ("C10", "per-aircraft last_bds cache: a reply directly following a BDS 6,0 reply that passes is_bds_6_0 with a heading within 15 deg is taken as 6,0 before the inference chain", "a 6,0 reply immediately followed by a 5,0 reply that is also valid as 6,0: the 5,0-before-6,0 precedence breaks"),
 "C10-mut10": ("C10", "is_bds_5_0 checks only the GS-TAS side of the 200 kt limit", "a valid in-range BDS 6,0 register whose 5,0 reading fails only on TAS-GS >= 200: wrongly taken as 5,0"),
 "C11-mut8": ("C11", "two sites: Srt decodes the AC field for DF0/DF16 too; the Srt row update drops its per-DF guards", "no -U: a DF0 or DF16 frame overwrites the altitude"),
 "C11-mut9": ("C11", "-U path holds the displayed TC19 vertical rate when the new value differs by at most one 64 ft/min step", "-U and two consecutive TC19 frames one step apart: the latest value is not shown"),
 "C11-mut10": ("C11", "register gates use relaxed && !capability.1.bds20 instead of relaxed", "-R and an aircraft that has sent a 1,7 report: replies of registers the report does not advertise are ignored"),
}
root='/verif/seeded'
for k,(prop,what,needs) in meta.items():
    p,m=k.split('-')
    src=f'/tmp/wt4/{p}/out/{m}'
    if not os.path.isdir(src): print("missing", src); continue
    dst=f'{root}/{k}'
    os.makedirs(dst,exist_ok=True)
    for f in os.listdir(src):
        if os.path.isfile(os.path.join(src,f)): shutil.copy(os.path.join(src,f),os.path.join(dst,f))
    demo='demo.rs' if os.path.exists(dst+'/demo.rs') else 'demo.sh'
    json.dump({"id":k,"property":prop,"change":what,"needs_to_manifest":needs,"written_by":"independent sub-agent (round 4: one two-site change, one feature/optimisation, optionally one free-style per property) that saw only the property record, a scratch worktree of /repo and a list of ideas already used",
      "demonstration":demo,
      "confirmed":"tools/seedeval.sh in a scratch worktree: patch applies; `cargo test --workspace --offline` 66 unit tests + 2 doctests pass with the patch; demonstration passes on the unchanged tree and fails with the patch",
      "how_to_run_demo": ("copy demo.rs to tests/demo_seed.rs in a worktree of /repo and run `cargo test --offline --test demo_seed`" if demo=='demo.rs' else "run `bash demo.sh` from the root of a worktree of /repo"),
      "caught_by":[]}, open(dst+'/meta.json','w'), indent=1)
print("copied", len(meta))
