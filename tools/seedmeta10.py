#!/usr/bin/env python3
"""Copies round-10 seeded changes from /tmp/wt10/<P>/out/<mutN> into /verif/seeded/<P>-<mutN>/ with meta.json."""
import json, os, shutil
meta = {
 "C01-mut21": ("C01", "Planes::print caches the address-sorted key list between refreshes and rebuilds it only when the row count changes", "a sweep removes row A in the same frame that creates newcomer B (row count unchanged) and a refresh follows: the stale key panics the reader thread"),
 "C01-mut22": ("C01", "clean_squitter recognises MLAT lines with strip_prefix('@') and slices &digits[12..]", "a line starting with '@' that holds fewer than 12 hex digits (\"@\", \"@0097;\"): slice panic, later lines lost"),
 "C03-mut21": ("C03", "a new Plane.frames counter lets the sweep note addresses that expired after a single frame; DF0/4/5/16/20/21 frames of a noted address are skipped until a DF11/17/18 clears the note", "one frame, silence, sweep, then an address/parity frame of the same aircraft: no row is created"),
 "C03-mut22": ("C03", "the reader converts each line with line.escape_ascii() instead of from_utf8_lossy", "control or high bytes on a frame's line become \\xNN and inject hex digits: the frame is dropped, or a 56-bit reply plus six such bytes is filed under an address nobody sent"),
 "C04-mut21": ("C04", "reminder() learns the interrogator code from DF11 replies (thread-local), confirms it once two aircraft report it, clears it on code 0; afterwards a DF17/18 whose non-zero remainder equals the code is accepted", "DF11 of X and of Y with the same non-zero interrogator code, then a squitter damaged by exactly that code in its parity field"),
 "C04-mut22": ("C04", "reminder() compares parity as text: get_hex_message(..).ends_with(format!(\"{:X}\", crc)) - no zero padding", "a squitter whose correct parity starts with a zero digit and an error confined to that digit (bits 89..92)"),
 "C08-mut21": ("C08", "a row flag on_ground is set by a DF11 with CA=4 and cleared only by a later DF11; while set, TC 9-18 pairs are decoded with the surface coefficient", "DF11 (CA=4), then an even and an odd airborne frame: longitude off by a factor"),
 "C08-mut22": ("C08", "the four != 0 slot tests become NonZeroU32::new(lat).or(NonZeroU32::new(lon))", "a half with exactly one CPR field equal to 0 is paired although a field of 0 counts as not received"),
 "C10-mut21": ("C10", "a BDS 1,0 report with MB bit 25 clear clips the recorded CA to 3; only the next DF11 restores it", "DF11 (CA>=4), a 1,7 report, such a 1,0 report: valid advertised 5,0 / 6,0 / 2,0 replies are no longer decoded without -R"),
 "C10-mut22": ("C10", "the Comm-B gate capability.0 > 3 is rewritten as (4..7).contains(..)", "an aircraft with recorded CA=7 never gets its Comm-B replies decoded without -R"),
 "C11-mut21": ("C11", "TC19 GNSS height uses a cached adsb_altitude set only by TC 9-18; DF4/DF20 do not refresh it, a surface squitter does not clear it", "TC 9-18 (38000 ft), DF4 (30000 ft), TC19 (+200 ft) shows 38200; TC 9-18, surface squitter, TC19 shows a GNSS height although the altitude is blank"),
 "C11-mut22": ("C11", "ais() rewritten with chunks_exact / flat_map; take_while replaces filter", "a callsign with a blank or unassigned code before its last real character is cut (KLM 1023 -> KLM, ' N123AB' -> empty)"),
 "C12-mut21": ("C12", "the sweep collects expired addresses into a scratch list AppCounters::expired that is never cleared", "an aircraft swept once and heard again in the same session is removed by every later sweep although just heard"),
 "C12-mut22": ("C12", "the age test becomes ts.checked_add_signed(ttl).is_some_and(|d| now < d)", "--delete-after above about 8e12 s (e.g. i64::MAX as 'never delete'): the deadline overflows and every sweep empties the table"),
 "C13-mut21": ("C13", "a re-assembly feature for wrapped long frames keeps a pending 14-digit first half that an accepted 28-digit frame does not clear", "a cut frame of a format whose parity cannot be checked, then only accepted long frames, then another 14-digit junk line: the two junk lines are glued into a ghost row"),
 "C13-mut22": ("C13", "from_utf8_lossy replaced by from_utf8 with a valid_up_to() prefix fallback", "a junk line of the form frame, non-UTF-8 byte, more hex digits is cut to its prefix and applied"),
 "C16-mut21": ("C16", "the -c line is cached; update_count uses the Entry API and only the Occupied arm invalidates the cache", "frame, refresh, first frame of a new format, refresh: the line lacks the new format"),
 "C16-mut22": ("C16", "the counter line is built from (0..31).filter_map(..): an exclusive range", "DF31 frames are applied and counted but never shown; the line is empty with -f 31 -c"),
 "C18-mut21": ("C18", "read_lines keeps a per-connection set of addresses seen and builds the row only on first contact; the set starts empty on every connection", "after a reconnect the first frame of a known aircraft replaces its row: callsign and stored CPR half are lost"),
 "C18-mut22": ("C18", "String::from_utf8_lossy(&line) becomes line.escape_ascii().to_string()", "stray control / high bytes on a frame's line add hex digits (\\xNN): the frame is dropped, a 7-byte binary junk line becomes a ghost DF0 aircraft"),
 "C19-mut21": ("C19", "a cpr_surface flag makes both paths forget stored CPR halves when an aircraft switches between surface and airborne position formats; the default path tests the flag but never clears it", "after a surface frame an airborne even+odd pair gives no position without -U and a position with -U"),
 "C19-mut22": ("C19", "self.ais.clone_from(&dl.ais) becomes self.ais.get_or_insert_with(..)", "the default path keeps an aircraft's first callsign for ever, -U shows the latest"),
}
root='/verif/seeded'
for k,(prop,what,needs) in meta.items():
    p,m=k.split('-')
    src=f'/tmp/wt10/{p}/out/{m}'
    if not os.path.isdir(src): print("missing", src); continue
    dst=f'{root}/{k}'
    os.makedirs(dst,exist_ok=True)
    for f in os.listdir(src):
        if os.path.isfile(os.path.join(src,f)): shutil.copy(os.path.join(src,f),os.path.join(dst,f))
    demo='demo.rs' if os.path.exists(dst+'/demo.rs') else 'demo.sh'
    json.dump({"id":k,"property":prop,"change":what,"needs_to_manifest":needs,"written_by":"independent sub-agent (round 10: one history-dependent defect, one API-migration slip per property) that saw only the property record, a scratch worktree of /repo and a list of ideas already used",
      "demonstration":demo,
      "confirmed":"tools/seedeval.sh in a scratch worktree: patch applies; `cargo test --workspace --offline` 66 unit tests + 2 doctests pass with the patch; demonstration passes on the unchanged tree and fails with the patch",
      "how_to_run_demo": ("copy demo.rs to tests/demo_seed.rs in a worktree of /repo and run `cargo test --offline --test demo_seed`" if demo=='demo.rs' else "run `bash demo.sh` from the root of a worktree of /repo"),
      "caught_by":[]}, open(dst+'/meta.json','w'), indent=1)
print("copied", len(meta))
