#!/usr/bin/env python3
"""Copies round-9 seeded changes from /tmp/wt9/<P>/out/<mutN> into /verif/seeded/<P>-<mutN>/ with meta.json."""
import json, os, shutil
meta = {
 "C01-mut19": ("C01", "a failed write to the -l log is reported with log::error! from inside the logger's own format closure (re-entrant, file lock held)", "-l /dev/full (or a full disk) and the first error-level record (e.g. -M 17): the reader wedges, no panic"),
 "C01-mut20": ("C01", "the vertical-rate 'field 0 = no information' guard reads bits 69..78 instead of 70..78", "a TC19 frame with rate 0 and sign bit 1: (0 - 1) << 6 overflows (overflow-checked build)"),
 "C13-mut19": ("C13", "TCP sockets get a 10 s receive time-out; WouldBlock / TimedOut count as 'feed idle' and reading continues, the partly received line is dropped", "a junk line whose first bytes arrive, then a pause of more than 10 s, then a tail that is a valid frame: the tail is read as a line of its own"),
 "C13-mut20": ("C13", "a previous-line memo refreshes its key on every line but its value only on accepted lines", "the second of two identical junk lines in a row replays the last accepted frame"),
 "C18-mut19": ("C18", "read_lines reads with read_until into its own buffer; the terminator strip buf[len-1] runs even when a read error arrives with an empty buffer", "a connection reset exactly at a line boundary: index panic, no reconnect"),
 "C18-mut20": ("C18", "end-of-connection summary divides by seen.usable but guards on the neighbouring counter seen.frames", "-f excluding every well-formed frame of a connection: divide by zero, the reader dies"),
 "C12-mut19": ("C12", "sweep keep-condition becomes (0..delete_after).contains(&elapsed)", "after a backward clock step of 1 s or more, rows whose last contact lies in the future are swept while live"),
 "C12-mut20": ("C12", "row age measured from app_state.timestamp (last refresh time) instead of the frame's now", "a long -u (or quiet mode): rows look older / younger by the refresh lag - just-heard aircraft swept, or rows silent exactly delete_after survive"),
 "C03-mut19": ("C03", "cleanup re-stamps any row whose last contact lies 1 s or more in the future and wipes its stored CPR halves", "after a backward clock step a frame of aircraft A rewrites the row of a future-stamped aircraft B"),
 "C03-mut20": ("C03", "-f test: only.iter().all(|x| x != df) becomes .any(...)", "-f with two different values: every frame is skipped, wanted frames create no rows"),
 "C04-mut19": ("C04", "parity-refused squitters are noted in the -D log: if reminder != 0 && log_refused(..).is_ok() { continue }", "-D pointing at an unwritable target (/dev/full): damaged DF11/17/18 frames fall through and are applied"),
 "C04-mut20": ("C04", "reminder() builds the DF as (message[0] << 1) | (message[1] & 1): the low CA/CF bit instead of the fifth DF bit", "DF17 with even CA, DF18 with odd CF, DF11 with even CA land in the unchecked arm"),
 "C16-mut19": ("C16", "a read time-out of -d seconds on the TCP socket; when it fires the handler replaces the whole AppCounters", "--tcp, -c and a peer that stays connected but silent for delete_after seconds: the DF counts restart from zero"),
 "C16-mut20": ("C16", "with -f and no -M the filter runs on the first two hex digits of the raw line instead of the cleaned message", "time-stamped lines (@ + 12 hex digits + frame): the time stamp decides admission"),
 "C19-mut19": ("C19", "a read time-out of -u seconds is set only when -u is positive and -i has no Q; a timed-out read drops the partly received line", "--tcp, positive -u and a peer pausing mid-line longer than -u: the frame is decoded with -i Q and lost without"),
 "C19-mut20": ("C19", "update_aircraft passes args.count_df where args.relaxed belongs", "-c switches relaxed Comm-B decoding on (and -R no longer does)"),
 "C08-mut19": ("C08", "if the half stored last has an earlier receive time than the other half, the decode is anchored on the older frame", "the clock steps back between the even and the odd frame"),
 "C08-mut20": ("C08", "lat / lon swapped in the range check before commit", "a valid pair whose longitude lies beyond 90 E or 90 W is decoded and discarded"),
 "C10-mut19": ("C10", "bds_5_0_timestamp becomes a 'late delivery' guard", "after a backward clock step valid advertised BDS 5,0 replies are dropped"),
 "C10-mut20": ("C10", "BDS 4,0 selected altitude taken from the FMS field in preference to the MCP/FCU field", "a register whose MCP and FMS selected altitudes differ (the property does not say which of the two is 'the' selected altitude: not judged, see DESIGN.md)"),
 "C11-mut19": ("C11", "a failed -D log write is non-fatal but a stray continue drops the frame that hit the error", "-D /dev/full (the unchanged tree aborts the stream on the first frame there - not judged, see DESIGN.md)"),
 "C11-mut20": ("C11", "default path TC19 subtype 3/4: self.heading = dl.track", "TC19 subtype 3/4 frames blank the heading on the default path instead of setting it"),
}
root='/verif/seeded'
for k,(prop,what,needs) in meta.items():
    p,m=k.split('-')
    src=f'/tmp/wt9/{p}/out/{m}'
    if not os.path.isdir(src): print("missing", src); continue
    dst=f'{root}/{k}'
    os.makedirs(dst,exist_ok=True)
    for f in os.listdir(src):
        if os.path.isfile(os.path.join(src,f)): shutil.copy(os.path.join(src,f),os.path.join(dst,f))
    demo='demo.rs' if os.path.exists(dst+'/demo.rs') else 'demo.sh'
    json.dump({"id":k,"property":prop,"change":what,"needs_to_manifest":needs,"written_by":"independent sub-agent (round 9: one error-path defect, one wrong-variable defect per property) that saw only the property record, a scratch worktree of /repo and a list of ideas already used",
      "demonstration":demo,
      "confirmed":"tools/seedeval.sh in a scratch worktree: patch applies; `cargo test --workspace --offline` 66 unit tests + 2 doctests pass with the patch; demonstration passes on the unchanged tree and fails with the patch",
      "how_to_run_demo": ("copy demo.rs to tests/demo_seed.rs in a worktree of /repo and run `cargo test --offline --test demo_seed`" if demo=='demo.rs' else "run `bash demo.sh` from the root of a worktree of /repo"),
      "caught_by":[]}, open(dst+'/meta.json','w'), indent=1)
print("copied", len(meta))
