#!/usr/bin/env python3
"""Copies round-11 seeded changes from /tmp/wt11/<P>/out/<mutN> into /verif/seeded/<P>-<mutN>/ with meta.json."""
import json, os, shutil
meta = {
 "C01-mut23": ("C01", "the reader keeps at most MAX_LINE = 1024 bytes per line and skips the tail of over-long lines; the buffer-full test is n == MAX_LINE", "a hostile line of exactly 1023 bytes plus LF makes the skip swallow the next well-formed line"),
 "C01-mut24": ("C01", "the -c line also prints each format's share as count * 10_000 / total on the i32 counters", "once one format passes 214 748 frames the next refresh panics with a multiply overflow (overflow-checked build)"),
 "C03-mut23": ("C03", "update_aircraft refuses to open a row from a DF0/4/5/16/20/21 reply whose address lies in no ICAO allocation block", "address/parity replies of such addresses create no row"),
 "C03-mut24": ("C03", "MAX_ROWS = 1024: a newcomer arriving at a full table evicts the live row with the oldest time stamp", "more than 1024 tracked aircraft: live rows vanish on frames of other aircraft"),
 "C04-mut23": ("C04", "a thread-local remembers the last parity-refused frame; if the same refused frame arrives again it is accepted", "the same damaged squitter twice in a row: the repeat is applied"),
 "C04-mut24": ("C04", "after 100 000 consecutive accepted lines on a stream the reader parses with a variant that skips the CRC division; any refused line resets the count", "a damaged squitter after 100 000 clean lines is applied"),
 "C08-mut23": ("C08", "a consistency guard remembers the type code of each CPR half and pairs only halves with the same type code", "a valid airborne pair whose squitters carry different type codes (TC 11 then TC 12) is never decoded"),
 "C08-mut24": ("C08", "the stored distance is capped at 999.9 km to fit the five-character column", "any position 1000 km or more from the observer shows 999.9"),
 "C10-mut23": ("C10", "a BDS 5,0 reply is rejected when the row's ground speed came from a TC19 squitter and differs by more than 40 kt (no age limit)", "a valid advertised 5,0 reply after an older, slower TC19 is dropped and falls through to the 6,0 inference"),
 "C10-mut24": ("C10", "the BDS 6,0 Mach field is narrowed to a byte before the plausibility check", "a Mach field of 256 or more is accepted and shown modulo 256 (field 256 shows Mach 0.0)"),
 "C11-mut23": ("C11", "an altitude-jump filter on DF4/DF20 keeps the shown altitude whenever the reply differs by more than 3000 ft (no age limit)", "after a climb or descent of more than 3000 ft between receptions every later DF4/DF20 altitude is ignored"),
 "C11-mut24": ("C11", "the TC19 velocity components are read through a helper that takes 9 magnitude bits instead of 10", "from 511 kt on one axis the shown ground speed and track are wrong"),
 "C12-mut23": ("C12", "an altitude-plausibility guard ignores any frame whose altitude differs by more than 8000 ft from the stored one; the ignored frame does not restart the last-contact time", "heard at 2000 ft, silent 40 s, heard at 30000 ft: the age is not restarted and the aircraft is swept while replying"),
 "C12-mut24": ("C12", "the sweep examines at most 512 rows per pass", "more than 512 rows all silent: most survive the sweep that falls due 12 frames later"),
 "C13-mut23": ("C13", "a noise-burst guard: after a rejected line with a frame's digit count the next 3 accepted DF0/4/5/16/20/21 frames of aircraft not yet in the table are dropped", "one damaged frame in front of valid address/parity replies of new aircraft: their rows are missing"),
 "C13-mut24": ("C13", "lines are numbered by zipping with 1..=u16::MAX", "a file or TCP session is silently abandoned after its 65 535th line, junk lines included"),
 "C16-mut23": ("C16", "a table-size guard of 1024 rows drops frames of further new aircraft before the -M log, the -f filter and the -c counter", "more than 1024 aircraft: the counter line undercounts"),
 "C16-mut24": ("C16", "the counter line is formatted into a 160-byte stack buffer", "a counter line longer than 160 bytes (about 23 formats) loses its tail"),
 "C18-mut23": ("C18", "a connection-attempt rate limit: at most 12 attempts per 60 s sliding window", "after a burst of 11 accept+close sessions followed by a refusal the next retry waits about 55 s more instead of 5 s"),
 "C18-mut24": ("C18", "the split(b'\\n') line reader is replaced by a splitter with a fixed 4096-byte buffer", "a junk run longer than 4095 bytes without a line feed is taken for end of stream: the healthy connection is abandoned"),
 "C19-mut23": ("C19", "a DF5 squawk de-bounce on the default path only: a changed code must be seen twice in a row before it replaces the displayed one", "a new code received once: old squawk without -U, new one with -U"),
 "C19-mut24": ("C19", "a row silent for more than 3600 s is reset to a fresh Plane on the default path only", "an aircraft heard again after more than an hour with its row still in the table loses callsign, position etc. without -U"),
}
root='/verif/seeded'
for k,(prop,what,needs) in meta.items():
    p,m=k.split('-')
    src=f'/tmp/wt11/{p}/out/{m}'
    if not os.path.isdir(src): print("missing", src); continue
    dst=f'{root}/{k}'
    os.makedirs(dst,exist_ok=True)
    for f in os.listdir(src):
        if os.path.isfile(os.path.join(src,f)): shutil.copy(os.path.join(src,f),os.path.join(dst,f))
    demo='demo.rs' if os.path.exists(dst+'/demo.rs') else 'demo.sh'
    json.dump({"id":k,"property":prop,"change":what,"needs_to_manifest":needs,"written_by":"independent sub-agent (round 11: one over-reaching robustness feature, one magnitude-dependent defect per property) that saw only the property record, a scratch worktree of /repo and a list of ideas already used",
      "demonstration":demo,
      "confirmed":"tools/seedeval.sh in a scratch worktree: patch applies; `cargo test --workspace --offline` 66 unit tests + 2 doctests pass with the patch; demonstration passes on the unchanged tree and fails with the patch",
      "how_to_run_demo": ("copy demo.rs to tests/demo_seed.rs in a worktree of /repo and run `cargo test --offline --test demo_seed`" if demo=='demo.rs' else "run `bash demo.sh` from the root of a worktree of /repo"),
      "caught_by":[]}, open(dst+'/meta.json','w'), indent=1)
print("copied", len(meta))
