#!/usr/bin/env python3
"""Copies round-3 seeded changes from /tmp/wt3/<P>/out/<mutN> into /verif/seeded/<P>-<mutN>/ with meta.json."""
import json, os, shutil
meta = {
 "C01-mut6": ("C01", "Planes::cleanup checks for expired rows under the read lock and takes the write lock while the read guard is still alive", "a sweep (12th accepted frame) that finds an expired row (-d 0 or negative, or a row silent for delete_after seconds): the reader thread deadlocks on itself, no panic"),
 "C01-mut7": ("C01", "clip(line) = &line[..min(64)] in the debug! / -M error! statements of the reader", "a logger at debug level (or -M with the frame's DF), an accepted line longer than 64 bytes in which a multi-byte character (e.g. U+FFFD from an invalid byte) straddles byte 64: panic on a char boundary"),
 "C12-mut6": ("C12", "sweep age = now.timestamp() - ts.timestamp() (difference of truncated seconds) instead of the truncated difference", "the row's last frame has a larger fractional second than the sweep time and its age is within one second below delete_after: swept while still live"),
 "C12-mut7": ("C12", "sweep age taken from position_timestamp.unwrap_or(timestamp)", "a row that obtained a CPR position and is then kept alive only by non-position frames for delete_after seconds: removed while being heard"),
 "C13-mut6": ("C13", "a line whose first byte is 0x1A (Ctrl-Z, DOS EOF) ends the read loop", "a junk line starting with 0x1A: the rest of the file / connection is never processed"),
 "C13-mut7": ("C13", "UTF-16 byte-order-mark detection on the first line of a stream switches a per-stream flag", "a junk first line beginning with FF FE or FE FF: every later ASCII frame of that stream is rejected"),
 "C18-mut6": ("C18", "read_lines returns Err(InvalidData) if a session's first line starts with HTTP/, SSH- or '220 '; connect_and_read_tcp treats InvalidData as fatal", "a TCP session opening with one of those greetings: the decoder ends"),
 "C18-mut7": ("C18", "u8 session counter incremented on every successful connect", "the 256th successful connection in one run (overflow-checked builds): panic"),
 "C03-mut6": ("C03", "get_icao returns AA | 1<<24 for DF18 frames with CF 1 or 5 ('non-ICAO address')", "a DF18 frame with CF = 1 or 5: attributed to a key different from its AA field"),
 "C03-mut7": ("C03", "update_aircraft blanks the callsign of every other row announcing the same callsign", "two tracked aircraft carrying an identical non-empty callsign: B's identification frame changes A's row"),
 "C04-mut6": ("C04", "reminder() treats a DF17/18 remainder equal to the frame's own AA field as zero (AP / PI confusion)", "an error pattern whose syndrome equals the aircraft address (e.g. the parity field XOR the address)"),
 "C04-mut7": ("C04", "reminder() returns 0 early for DF17/18 frames with type code 0 or 23..30 ('undecoded types')", "a corrupted squitter whose (possibly corrupted) type code falls in that set"),
 "C16-mut6": ("C16", "Planes::note_capability called for DF11 just before the -f check", "-f without 11 and a DF11 of an already tracked aircraft: the filtered-out frame changes its capability"),
 "C16-mut7": ("C16", "DF counters become [u16; 32] with saturating_add", "more than 65 535 accepted frames of one format: the count sticks at 65535"),
 "C19-mut6": ("C19", "default path merges the TC19 subtype 1 and 2 arms, dropping the supersonic x4", "a TC19 subtype 2 frame: ground speed differs with and without -U"),
 "C19-mut7": ("C19", "the sweep moved behind an early `if quiet { continue; }`", "-i Q and something that actually expires: the table is never swept"),
 "C08-mut6": ("C08", "housekeeping drops the 'stale' CPR slot when a pair is 10 s or more apart, but indexes the newer slot", "parity p, >= 10 s silence, parity 1-p, then parity p within 10 s: no position where the decode anchored on the last frame is due"),
 "C08-mut7": ("C08", "is_reachable speed gate compares |dlat| and |dlon| in plain degrees without the +-180 fold or cos(lat) scaling", "a second valid pair across the antimeridian (or at 80 deg N/S after a long reception gap): rejected, the row freezes"),
 "C10-mut6": ("C10", "is_bds_6_0 also accepts a register whose inertial-vertical-velocity status bit (MB 46) is clear provided MB 47-56 are zero", "such a reply: heading / IAS / Mach / vertical rate overwritten although not all status bits are set"),
 "C10-mut7": ("C10", "BDS 1,7 flag extraction rewritten; BDS 5,0 typed as bit 17 (BDS 5,1) instead of bit 16", "a BDS 1,7 report in which bits 16 and 17 differ: an announced 5,0 is ignored or an unannounced one decoded"),
 "C11-mut6": ("C11", "a surface squitter blanks the altitude only when the previous extended squitter was not a surface one (last_type_code)", "history surface, DF4/DF20, surface: the DF4/DF20 altitude stays on display"),
 "C11-mut7": ("C11", "DF5 case written as self.squawk.or(dl.squawk) on the default path", "a DF5 with a new code after a squawk is already shown (no -U): never replaces it"),
}
root='/verif/seeded'
for k,(prop,what,needs) in meta.items():
    p,m=k.split('-')
    src=f'/tmp/wt3/{p}/out/{m}'
    if not os.path.isdir(src): print("missing", src); continue
    dst=f'{root}/{k}'
    os.makedirs(dst,exist_ok=True)
    for f in os.listdir(src):
        if os.path.isfile(os.path.join(src,f)): shutil.copy(os.path.join(src,f),os.path.join(dst,f))
    demo='demo.rs' if os.path.exists(dst+'/demo.rs') else 'demo.sh'
    json.dump({"id":k,"property":prop,"change":what,"needs_to_manifest":needs,"written_by":"independent sub-agent (round 3) that saw only the property record, a scratch worktree of /repo and a list of ideas already used",
      "demonstration":demo,
      "confirmed":"tools/seedeval.sh in a scratch worktree: patch applies; `cargo test --workspace --offline` 66 unit tests + 2 doctests pass with the patch; demonstration passes on the unchanged tree and fails with the patch",
      "how_to_run_demo": ("copy demo.rs to tests/demo_seed.rs in a worktree of /repo and run `cargo test --offline --test demo_seed`" if demo=='demo.rs' else "run `bash demo.sh` from the root of a worktree of /repo"),
      "caught_by":[]}, open(dst+'/meta.json','w'), indent=1)
print("copied", len(meta))
