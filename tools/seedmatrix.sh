#!/bin/bash
# [OWN=1] seedmatrix.sh [id-regex]
# Runs every quick check (OWN=1: only the check of the change's own property, other entries are kept)
# against every seeded change under /verif/seeded (applied to /repo, reverted
# afterwards), records which checks catch which change in meta.json and seeded/README.md.
cd /verif || exit 2
git -C /repo diff --quiet || { echo "/repo has uncommitted changes"; exit 2; }
PROPS="C01 C03 C04 C08 C10 C11 C12 C13 C16 C18 C19"
for d in seeded/*/; do
  id=$(basename "$d")
  [ -n "$1" ] && ! [[ "$id" =~ $1 ]] && continue
  git -C /repo apply "/verif/${d}patch.diff" || { echo "$id: patch does not apply"; continue; }
  caught=""
  own=${id%%-*}
  for c in $( [ -n "$OWN" ] && echo "$own" || echo "$PROPS" ); do
    out=$(./bin/simcheck run "$c" --tier quick 2>&1); code=$?
    rules=$(echo "$out" | grep -oE "rule=[A-Za-z0-9.-]+" | sed 's/rule=//' | sort -u | tr '\n' ',' | sed 's/,$//')
    [ "$code" = 1 ] && caught="$caught $c:$rules"
    [ "$code" = 2 ] && caught="$caught $c:HARNESS-ERROR"
  done
  git -C /repo checkout -q -- .
  rm -f replays/*.json
  echo "$id =>$caught"
  python3 - "$d/meta.json" "$caught" <<'PY'
import json,sys
import os
m=json.load(open(sys.argv[1])); new=sys.argv[2].split()
if os.environ.get("OWN"):
    own=m["property"]+":"
    new=new+[c for c in m.get("caught_by",[]) if not c.startswith(own)]
m["caught_by"]=new; json.dump(m,open(sys.argv[1],"w"),indent=1)
PY
done
python3 - <<'PY'
import json,glob,os
rows=[]
for f in sorted(glob.glob('/verif/seeded/*/meta.json')):
    m=json.load(open(f)); rows.append(m)
with open('/verif/seeded/README.md','w') as o:
    o.write("# Seeded changes (written by independent sub-agents from the property text only)\n\n")
    o.write("Each directory holds `patch.diff` (applies to /repo with `git -C /repo apply`), the demonstration that fails with the change and passes without it, the author's `notes.md`, and `meta.json`.  Every change compiles and passes the 66 baseline tests.  `caught by` = quick checks that exit 1 with the change applied (rule ids), measured by `tools/seedmatrix.sh`; every check exits 0 again after `git -C /repo checkout -- .`.\n\n")
    o.write("| id | breaks | change | needs, to manifest | caught by |\n|----|--------|--------|--------------------|-----------|\n")
    for m in rows:
        own=[c for c in m['caught_by'] if c.startswith(m['property']+':')]
        others=[c.split(':')[0] for c in m['caught_by'] if not c.startswith(m['property']+':')]
        cb=(', '.join(own) if own else '**not by its own check**') + (('; also ' + ' '.join(others)) if others else '')
        o.write(f"| {m['id']} | {m['property']} | {m['change']} | {m['needs_to_manifest']} | {cb} |\n")
PY
