//! Clock shim: everything is real chrono except `Utc`, whose `now()` reads the
//! simulated clock.  `DateTime<Utc>` arithmetic is untouched chrono code.
pub use chrono_real::*;
use std::sync::atomic::{AtomicI64, AtomicU64, Ordering};

/// Simulated time in microseconds since the Unix epoch.
static NOW_US: AtomicI64 = AtomicI64::new(EPOCH_US);
/// Added to the clock after every `now()` call ("fine tick" fault kind); 0 = frozen.
static TICK_US: AtomicI64 = AtomicI64::new(0);
static NOW_CALLS: AtomicU64 = AtomicU64::new(0);

pub const EPOCH_US: i64 = 1_700_000_000_000_000;

pub fn sim_set_now_us(v: i64) {
    NOW_US.store(v, Ordering::SeqCst)
}
pub fn sim_now_us() -> i64 {
    NOW_US.load(Ordering::SeqCst)
}
pub fn sim_set_tick_us(v: i64) {
    TICK_US.store(v, Ordering::SeqCst)
}
pub fn sim_now_calls() -> u64 {
    NOW_CALLS.load(Ordering::SeqCst)
}
pub fn sim_reset(now_us: i64) {
    NOW_US.store(now_us, Ordering::SeqCst);
    TICK_US.store(0, Ordering::SeqCst);
    NOW_CALLS.store(0, Ordering::SeqCst);
}

#[derive(Copy, Clone, Debug, PartialEq, Eq, Hash)]
pub struct Utc;

impl Utc {
    pub fn now() -> DateTime<Utc> {
        NOW_CALLS.fetch_add(1, Ordering::SeqCst);
        let tick = TICK_US.load(Ordering::SeqCst);
        let us = if tick != 0 {
            NOW_US.fetch_add(tick, Ordering::SeqCst)
        } else {
            NOW_US.load(Ordering::SeqCst)
        };
        let n = chrono_real::DateTime::<chrono_real::Utc>::from_timestamp_micros(us)
            .expect("simulated clock out of range")
            .naive_utc();
        DateTime::<Utc>::from_naive_utc_and_offset(n, chrono_real::Utc)
    }
}

impl TimeZone for Utc {
    type Offset = chrono_real::Utc;
    fn from_offset(_: &chrono_real::Utc) -> Utc {
        Utc
    }
    fn offset_from_local_date(&self, _: &NaiveDate) -> LocalResult<chrono_real::Utc> {
        LocalResult::Single(chrono_real::Utc)
    }
    fn offset_from_local_datetime(&self, _: &NaiveDateTime) -> LocalResult<chrono_real::Utc> {
        LocalResult::Single(chrono_real::Utc)
    }
    fn offset_from_utc_date(&self, _: &NaiveDate) -> chrono_real::Utc {
        chrono_real::Utc
    }
    fn offset_from_utc_datetime(&self, _: &NaiveDateTime) -> chrono_real::Utc {
        chrono_real::Utc
    }
}
