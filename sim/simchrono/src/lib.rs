//! Harness-side handle on the clock seam: the patched chrono copy in ../chrono-sim
//! (identical to chrono 0.4.40 except that `Utc::now()` reads `chrono::sim`).
pub use chrono::sim::*;
pub use chrono::*;
