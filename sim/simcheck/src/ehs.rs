//! R-ehs: ICAO Doc 9871 layouts of the Comm-B registers used by C10,
//! independent of /repo.  MB bits are numbered 1..=56.
#![allow(dead_code)]
use crate::modes::{f40_of, f50_of, f60_of, mb_get};

pub fn mb_of_frame(frame: &[u8]) -> u64 {
    crate::modes::get_bits(frame, 33, 88)
}

/// BDS 1,7 common usage GICB capability report: BDS 2,0 capability (bit 7) set, bits 29-56 zero.
pub fn valid17(mb: u64) -> bool {
    mb_get(mb, 7, 7) == 1 && mb_get(mb, 29, 56) == 0
}
/// An MB field that is certainly not a 1,7 report under any reading.
pub fn clearly_not17(mb: u64) -> bool {
    mb_get(mb, 7, 7) == 0 || mb_get(mb, 25, 56) != 0
}
pub fn caps24(mb: u64) -> u32 {
    mb_get(mb, 1, 24) as u32
}
pub fn adv(mb: u64, reg: u32) -> bool {
    let bit = match reg { 40 => 9, 44 => 13, 50 => 16, 60 => 24, 20 => 7, _ => return false };
    mb_get(mb, bit, bit) == 1
}

/// 4,0: the three value status bits set, reserved bits zero.
pub fn core_valid40(mb: u64) -> bool {
    let f = f40_of(mb);
    f.s_mcp == 1 && f.s_fms == 1 && f.s_baro == 1 && f.res40_47 == 0 && f.res52_53 == 0
}
pub fn all_status40(mb: u64) -> bool {
    let f = f40_of(mb);
    core_valid40(mb) && f.s_mode == 1 && f.s_src == 1
}
pub fn nonzero40(mb: u64) -> bool {
    let f = f40_of(mb);
    f.mcp != 0 && f.fms != 0 && f.baro != 0
}
pub fn clearly_not40(mb: u64) -> bool {
    let f = f40_of(mb);
    !(f.s_mcp == 1 && f.s_fms == 1 && f.s_baro == 1) || f.res40_47 != 0 || f.res52_53 != 0
}
pub struct D40 { pub mcp_alt: u32, pub fms_alt: u32, pub baro_mb: u32 }
pub fn decode40(mb: u64) -> D40 {
    let f = f40_of(mb);
    D40 { mcp_alt: f.mcp as u32 * 16, fms_alt: f.fms as u32 * 16, baro_mb: (f.baro as f64 * 0.1 + 800.0).floor() as u32 }
}

pub fn all_status50(mb: u64) -> bool {
    let f = f50_of(mb);
    f.s_roll == 1 && f.s_trk == 1 && f.s_gs == 1 && f.s_tar == 1 && f.s_tas == 1
}
pub fn clearly_not50(mb: u64) -> bool {
    !all_status50(mb)
}
fn twos(sign: u64, mag: u64, bits: u32) -> i64 {
    if sign == 1 { mag as i64 - (1i64 << bits) } else { mag as i64 }
}
pub struct D50 { pub roll: f64, pub track: f64, pub gs: u32, pub tar: f64, pub tas: u32 }
pub fn decode50(mb: u64) -> D50 {
    let f = f50_of(mb);
    let roll = twos(f.roll_sign, f.roll, 9) as f64 * 45.0 / 256.0;
    let mut track = twos(f.trk_sign, f.trk, 10) as f64 * 90.0 / 512.0;
    if track < 0.0 { track += 360.0; }
    let tar = twos(f.tar_sign, f.tar, 9) as f64 * 8.0 / 256.0;
    D50 { roll, track, gs: f.gs as u32 * 2, tar, tas: f.tas as u32 * 2 }
}
/// Every value field non-zero and within the plausibility limits of C10.
pub fn plausible50(mb: u64) -> bool {
    let f = f50_of(mb);
    let d = decode50(mb);
    // a signed field is "non-zero" when sign and magnitude are not both zero (sign 1 / magnitude 0 is the
    // most negative value, e.g. a true track of exactly 180 deg)
    (f.roll != 0 || f.roll_sign != 0) && (f.trk != 0 || f.trk_sign != 0) && f.gs != 0 && (f.tar != 0 || f.tar_sign != 0) && f.tas != 0
        && d.roll.abs() <= 50.0 && d.gs <= 600 && d.tas <= 500 && (d.gs as i64 - d.tas as i64).abs() < 200
}

/// The 5,0 reading of this MB field violates a plausibility limit the property states (by a margin that
/// no rounding convention can close): it does not "satisfy the rules" of BDS 5,0.
pub fn clearly_implausible50(mb: u64) -> bool {
    let d = decode50(mb);
    d.roll.abs() >= 51.0 || d.gs > 600 || d.tas > 500 || (d.gs as i64 - d.tas as i64).abs() >= 200
}

pub fn all_status60(mb: u64) -> bool {
    let f = f60_of(mb);
    f.s_hdg == 1 && f.s_ias == 1 && f.s_mach == 1 && f.s_baro == 1 && f.s_ivv == 1
}
pub struct D60 { pub hdg: f64, pub ias: u32, pub mach: f64, pub baro_rate: i32, pub ivv: i32 }
pub fn decode60(mb: u64) -> D60 {
    let f = f60_of(mb);
    let mut hdg = twos(f.hdg_sign, f.hdg, 10) as f64 * 90.0 / 512.0;
    if hdg < 0.0 { hdg += 360.0; }
    D60 { hdg, ias: f.ias as u32, mach: f.mach as f64 * 2.048 / 512.0, baro_rate: (twos(f.baro_sign, f.baro, 9) * 32) as i32, ivv: (twos(f.ivv_sign, f.ivv, 9) * 32) as i32 }
}
pub fn plausible60(mb: u64) -> bool {
    let f = f60_of(mb);
    let d = decode60(mb);
    (f.hdg != 0 || f.hdg_sign != 0) && f.ias != 0 && f.mach != 0 && (f.baro != 0 || f.baro_sign != 0) && (f.ivv != 0 || f.ivv_sign != 0)
        && d.mach <= 1.0 && d.baro_rate.abs() <= 6000 && d.ivv.abs() <= 6000
}

/// Truncation of a signed quantity: either direction is accepted ("integers truncated" does not fix it).
pub fn int_matches(got: i64, exact: f64) -> bool {
    // for a non-negative quantity truncation is unambiguous; for a negative one "truncated" may mean
    // towards zero or towards minus infinity
    if exact >= 0.0 { got == exact.floor() as i64 } else { got == exact.floor() as i64 || got == exact.ceil() as i64 }
}

/// Callsign of a BDS 2,0 register (C07's character table).
pub fn callsign20(mb: u64) -> String {
    let mut s = String::new();
    for i in 0..8 {
        let c = mb_get(mb, 9 + 6 * i, 14 + 6 * i) as u8;
        match c {
            1..=26 => s.push((c + 64) as char),
            48..=57 => s.push(c as char),
            _ => {}
        }
    }
    s
}

#[cfg(test)]
mod tests {
    use super::*;
    use crate::modes::*;
    #[test]
    fn literature_vectors() {
        // 1090 riddle, BDS 5,0: A000139381951536E024D4CCF6B5 -> roll 2.1, track 114.258, gs 438, tar 0.125, tas 424
        let f = from_hex("A000139381951536E024D4CCF6B5").unwrap();
        let d = decode50(mb_of_frame(&f));
        assert!((d.roll - 2.1).abs() < 0.1 && (d.track - 114.258).abs() < 0.01 && d.gs == 438 && (d.tar - 0.125).abs() < 1e-9 && d.tas == 424);
        // BDS 6,0: A00004128F39F91A7E27C46ADC21 -> hdg 42.715, ias 252, mach 0.42, baro -1920, ivv -1920
        let f = from_hex("A00004128F39F91A7E27C46ADC21").unwrap();
        let d = decode60(mb_of_frame(&f));
        assert!((d.hdg - 42.715).abs() < 0.01 && d.ias == 252 && (d.mach - 0.42).abs() < 1e-9 && d.baro_rate == -1920 && d.ivv == -1920);
        // BDS 4,0: A000029C85E42F313000007047D3 -> MCP 3008, FMS 3008, baro 1020.0
        let f = from_hex("A000029C85E42F313000007047D3").unwrap();
        let d = decode40(mb_of_frame(&f));
        assert_eq!((d.mcp_alt, d.fms_alt, d.baro_mb), (3008, 3008, 1020));
        // BDS 2,0: A000083E202CC371C31DE0AA1CCF -> KLM1017
        let f = from_hex("A000083E202CC371C31DE0AA1CCF").unwrap();
        assert_eq!(callsign20(mb_of_frame(&f)), "KLM1017");
        // BDS 1,7: A0000638FA81C10000000081A92F -> 4,0 5,0 6,0 advertised
        let f = from_hex("A0000638FA81C10000000081A92F").unwrap();
        let mb = mb_of_frame(&f);
        assert!(valid17(mb) && adv(mb, 40) && adv(mb, 50) && adv(mb, 60));
    }
}
