//! Reach measurement: what the runs of a batch actually did.
use crate::exec::{History, SeamEv, StepKind};
use crate::row::Snapshot;
use crate::script::{Case, Conn, Op};
use serde::{Deserialize, Serialize};
use std::collections::{BTreeMap, BTreeSet};

#[derive(Clone, Debug, Default, Serialize, Deserialize)]
pub struct Stats {
    pub runs: u64,
    pub executions: u64,
    pub nontrivial_runs: u64,
    pub discarded_by_crash: u64,
    pub sim_us_total: i64,
    pub events_total: u64,
    pub lines_total: u64,
    pub oracle_evals: u64,
    /// How often each fault kind actually fired.
    pub faults: BTreeMap<String, u64>,
    /// Rare conditions the properties are about.
    pub probes: BTreeMap<String, u64>,
    /// Hashes of abstract table states reached (bounded set).
    pub states: BTreeSet<u64>,
    /// Hashes of (previous event kind -> event kind) pairs.
    pub bigrams: BTreeSet<u64>,
    /// Hashes of scripts of non-trivial runs.
    pub scripts: BTreeSet<u64>,
    pub samples: Vec<serde_json::Value>,
    pub outcomes: BTreeMap<String, u64>,
}

pub const MAX_SET: usize = 50_000;
/// Cap of the merged sets (worker level: MAX_SET; driver level: all workers together).
pub const MAX_SET_MERGED: usize = 2_000_000;

pub fn fnv(data: &[u8]) -> u64 {
    let mut h: u64 = 0xcbf29ce484222325;
    for &b in data {
        h = (h ^ b as u64).wrapping_mul(0x100000001b3);
    }
    h
}

impl Stats {
    pub fn fault(&mut self, k: &str) {
        *self.faults.entry(k.to_string()).or_insert(0) += 1;
    }
    pub fn fault_n(&mut self, k: &str, n: u64) {
        if n > 0 {
            *self.faults.entry(k.to_string()).or_insert(0) += n;
        }
    }
    pub fn probe(&mut self, k: &str) {
        *self.probes.entry(k.to_string()).or_insert(0) += 1;
    }
    pub fn probe_n(&mut self, k: &str, n: u64) {
        *self.probes.entry(k.to_string()).or_insert(0) += n;
    }
    pub fn state(&mut self, h: u64) {
        if self.states.len() < MAX_SET {
            self.states.insert(h);
        }
    }

    /// Script-level fault counts (what the feed was scripted to do) are only
    /// counted for ops the reader actually consumed: see `observe`.
    pub fn observe(&mut self, case: &Case, h: &History) {
        self.executions += 1;
        self.sim_us_total = self.sim_us_total.saturating_add(h.end_t_us.saturating_sub(crate::exec::T0_US));
        self.events_total += h.seam.len() as u64;
        let oc = match &h.outcome {
            crate::exec::Outcome::Panic(_) => "panic".to_string(),
            crate::exec::Outcome::Wedge(_) => "wedge".to_string(),
            crate::exec::Outcome::ReturnedErr(_) => "returned-err".to_string(),
            crate::exec::Outcome::ArgsRejected(_) => "args-rejected".to_string(),
            o => format!("{:?}", o),
        };
        *self.outcomes.entry(oc).or_insert(0) += 1;
        let prev = std::cell::RefCell::new(String::from("start"));
        let bg = |stats: &mut Stats, k: &str| {
            if stats.bigrams.len() < MAX_SET {
                stats.bigrams.insert(fnv(format!("{}>{}", prev.borrow(), k).as_bytes()));
            }
            *prev.borrow_mut() = k.to_string();
        };
        for ev in &h.seam {
            match ev {
                SeamEv::Connect { ok: false, .. } => { self.fault("connect-refused"); bg(self, "refuse"); }
                SeamEv::Connect { ok: true, .. } => bg(self, "connect"),
                SeamEv::Sleep { .. } => { self.probe("retry-sleep"); bg(self, "sleep"); }
                SeamEv::ReadTimeout { .. } => { self.fault("read-timeout-fired"); }
                _ => {}
            }
        }
        let mut last_conn = usize::MAX;
        for st in &h.steps {
            self.lines_total += st.lines.len() as u64;
            if st.conn != last_conn {
                *prev.borrow_mut() = "conn-start".into();
                last_conn = st.conn;
            }
            match &st.kind {
                StepKind::Data => {
                    let k = if st.tag.is_empty() { "data".to_string() } else { st.tag.split(':').next().unwrap_or("data").to_string() };
                    if st.lines.is_empty() { self.fault("short-read-no-newline"); }
                    if st.lines.len() > 1 { self.probe("multi-line-read"); }
                    bg(self, &k);
                }
                StepKind::Eof => {
                    if !st.lines.is_empty() { self.fault("eof-without-newline"); }
                    if case.script.tcp { self.fault("peer-close"); }
                    bg(self, "eof");
                }
                StepKind::Err(k) => {
                    self.fault(&format!("read-error-{}", k));
                    if st.dropped_partial.is_some() { self.fault("reset-mid-line"); }
                    bg(self, &format!("err-{}", k));
                }
            }
        }
        // tags of consumed data ops name the injected channel faults: "kind:fault1+fault2"
        let consumed_set: std::collections::HashSet<(usize, usize)> = h.steps.iter().map(|s| (s.conn, s.op)).collect();
        for (ci, c) in case.script.conns.iter().enumerate() {
            if let Conn::Accept { ops } = c {
                for (oi, op) in ops.iter().enumerate() {
                    let consumed = consumed_set.contains(&(ci, oi));
                    if !consumed { continue; }
                    match op {
                        Op::Data { tag, dt_us, .. } => {
                            if let Some((_, f)) = tag.split_once(':') {
                                for x in f.split('+') { if !x.is_empty() { self.fault(x); } }
                            }
                            if *dt_us < 0 { self.fault("clock-jump-back"); }
                        }
                        Op::Err { kind, .. } if kind == "Interrupted" => self.fault("read-error-Interrupted"),
                        _ => {}
                    }
                }
            }
        }
        if case.script.tick_us != 0 { self.fault("fine-tick-clock"); }
    }

    pub fn sample(&mut self, v: serde_json::Value) {
        if self.samples.len() < 4 {
            self.samples.push(v);
        }
    }

    pub fn merge(&mut self, o: Stats) {
        self.merge_capped(o, MAX_SET_MERGED)
    }

    pub fn merge_capped(&mut self, o: Stats, cap: usize) {
        self.runs += o.runs;
        self.executions += o.executions;
        self.nontrivial_runs += o.nontrivial_runs;
        self.discarded_by_crash += o.discarded_by_crash;
        self.sim_us_total = self.sim_us_total.saturating_add(o.sim_us_total);
        self.events_total += o.events_total;
        self.lines_total += o.lines_total;
        self.oracle_evals += o.oracle_evals;
        for (k, v) in o.faults { *self.faults.entry(k).or_insert(0) += v; }
        for (k, v) in o.probes { *self.probes.entry(k).or_insert(0) += v; }
        for (k, v) in o.outcomes { *self.outcomes.entry(k).or_insert(0) += v; }
        for x in o.states { if self.states.len() < cap { self.states.insert(x); } }
        for x in o.bigrams { if self.bigrams.len() < cap { self.bigrams.insert(x); } }
        for x in o.scripts { if self.scripts.len() < cap { self.scripts.insert(x); } }
        for s in o.samples { if self.samples.len() < 4 { self.samples.push(s); } }
    }
}

/// Abstract state of a table: per row which parameters are populated, CA class,
/// advertised registers, CPR slots, age buckets - hashed together with an option class.
pub fn abstract_state(snap: &Snapshot, now_us: i64, d: i64, opt_class: &str, last_kind: &str) -> u64 {
    let mut s = String::with_capacity(64 + snap.len() * 24);
    s.push_str(opt_class);
    s.push('|');
    s.push_str(last_kind);
    for r in snap.values() {
        let mut bm: u32 = 0;
        let flags = [
            r.ais.is_some(), r.altitude.is_some(), r.altitude_gnss.is_some(), r.selected_altitude.is_some(),
            r.barometric_pressure_setting.is_some(), r.squawk.is_some(), r.threat_encounter.is_some(), r.vrate.is_some(),
            r.lat.0 != 0.0, r.distance.is_some(), r.grspeed.is_some(), r.true_airspeed.is_some(),
            r.indicated_airspeed.is_some(), r.mach_number.is_some(), r.track.is_some(), r.heading.is_some(),
            r.roll_angle.is_some(), r.track_angle_rate.is_some(), r.temperature.is_some(), r.adsb_version.is_some(),
            r.ground_movement.is_some(), r.cpr_lat[0] != 0, r.cpr_lat[1] != 0, r.ca > 3,
            r.cap_bds[1], r.cap_bds[3], r.cap_bds[4],
        ];
        for (i, f) in flags.iter().enumerate() {
            if *f { bm |= 1 << i; }
        }
        let age = (now_us - r.timestamp) / 1_000_000;
        let ab = if age < 1 { 0 } else if age < 10 { 1 } else if age < d { 2 } else { 3 };
        let pair_age = ((r.cpr_time[0] - r.cpr_time[1]).abs()) / 1_000_000;
        let pb = if pair_age < 1 { 0 } else if pair_age < 10 { 1 } else { 2 };
        s.push_str(&format!("/{:x}.{}.{}", bm, ab, pb));
    }
    fnv(s.as_bytes())
}
