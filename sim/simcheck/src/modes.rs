//! The harness's own Mode S vocabulary: bit access, CRC-24, frame and register
//! encoders.  Shares no code with /repo.  Bits are numbered 1..=n, MSB first,
//! as in the ICAO documents.
#![allow(dead_code)]

pub const POLY: u32 = 0x1FFF409;

pub fn get_bits(buf: &[u8], sb: usize, eb: usize) -> u64 {
    let mut v = 0u64;
    for b in sb..=eb {
        let i = b - 1;
        v = (v << 1) | ((buf[i / 8] >> (7 - (i % 8))) & 1) as u64;
    }
    v
}

pub fn set_bits(buf: &mut [u8], sb: usize, eb: usize, val: u64) {
    let n = eb - sb + 1;
    for k in 0..n {
        let i = sb - 1 + k;
        let bit = ((val >> (n - 1 - k)) & 1) as u8;
        let m = 1u8 << (7 - (i % 8));
        if bit == 1 {
            buf[i / 8] |= m;
        } else {
            buf[i / 8] &= !m;
        }
    }
}

pub fn flip_bit(buf: &mut [u8], b: usize) {
    let i = b - 1;
    buf[i / 8] ^= 1u8 << (7 - (i % 8));
}

/// CRC-24 (generator 0x1FFF409) of `data`: remainder of data(x) * x^24.
pub fn crc24(data: &[u8]) -> u32 {
    let mut crc: u32 = 0;
    for &byte in data {
        crc ^= (byte as u32) << 16;
        for _ in 0..8 {
            crc <<= 1;
            if crc & 0x1000000 != 0 {
                crc ^= POLY;
            }
        }
    }
    crc & 0xFFFFFF
}

/// Remainder of the whole frame (data and parity field together).
pub fn syndrome(frame: &[u8]) -> u32 {
    let n = frame.len();
    let tail = ((frame[n - 3] as u32) << 16) | ((frame[n - 2] as u32) << 8) | frame[n - 1] as u32;
    crc24(&frame[..n - 3]) ^ tail
}

pub fn df_of(frame: &[u8]) -> u32 {
    (frame[0] >> 3) as u32
}

/// Address a frame is to be attributed to (C03): AA for DF11/17/18, AP xor CRC
/// for the address/parity formats; `None` for other formats.
pub fn address(frame: &[u8]) -> Option<u32> {
    match df_of(frame) {
        11 | 17 | 18 => Some(get_bits(frame, 9, 32) as u32),
        0 | 4 | 5 | 16 | 20 | 21 => Some(syndrome(frame)),
        _ => None,
    }
}

/// Writes the parity field so that the frame carries `overlay` (address for AP
/// formats, interrogator code for DF11, 0 for DF17/18).
pub fn seal(frame: &mut [u8], overlay: u32) {
    let n = frame.len();
    let p = crc24(&frame[..n - 3]) ^ (overlay & 0xFFFFFF);
    frame[n - 3] = (p >> 16) as u8;
    frame[n - 2] = (p >> 8) as u8;
    frame[n - 1] = p as u8;
}

pub fn to_hex(frame: &[u8]) -> String {
    frame.iter().map(|b| format!("{:02X}", b)).collect()
}

pub fn from_hex(s: &str) -> Option<Vec<u8>> {
    let d: Vec<u8> = s.chars().filter_map(|c| c.to_digit(16)).map(|d| d as u8).collect();
    if d.len() % 2 != 0 {
        return None;
    }
    Some(d.chunks(2).map(|p| (p[0] << 4) | p[1]).collect())
}

// ---------------------------------------------------------------- short frames

/// DF0: VS CC SL RI AC13.
pub fn df0(icao: u32, vs: u64, sl: u64, ri: u64, ac13: u64) -> Vec<u8> {
    let mut f = vec![0u8; 7];
    set_bits(&mut f, 1, 5, 0);
    set_bits(&mut f, 6, 6, vs);
    set_bits(&mut f, 9, 11, sl);
    set_bits(&mut f, 14, 17, ri);
    set_bits(&mut f, 20, 32, ac13);
    seal(&mut f, icao);
    f
}

/// DF4 (AC13) / DF5 (ID13): FS DR UM + 13-bit field.
pub fn df4_5(df: u64, icao: u32, fs: u64, dr: u64, um: u64, field13: u64) -> Vec<u8> {
    let mut f = vec![0u8; 7];
    set_bits(&mut f, 1, 5, df);
    set_bits(&mut f, 6, 8, fs);
    set_bits(&mut f, 9, 13, dr);
    set_bits(&mut f, 14, 19, um);
    set_bits(&mut f, 20, 32, field13);
    seal(&mut f, icao);
    f
}

/// DF11 all-call reply; `iid` goes into the low 7 bits of PI.
pub fn df11(icao: u32, ca: u64, iid: u32) -> Vec<u8> {
    let mut f = vec![0u8; 7];
    set_bits(&mut f, 1, 5, 11);
    set_bits(&mut f, 6, 8, ca);
    set_bits(&mut f, 9, 32, icao as u64);
    seal(&mut f, iid & 0x7F);
    f
}

// ----------------------------------------------------------------- long frames

pub fn df16(icao: u32, vs: u64, sl: u64, ri: u64, ac13: u64, mv: u64) -> Vec<u8> {
    let mut f = vec![0u8; 14];
    set_bits(&mut f, 1, 5, 16);
    set_bits(&mut f, 6, 6, vs);
    set_bits(&mut f, 9, 11, sl);
    set_bits(&mut f, 14, 17, ri);
    set_bits(&mut f, 20, 32, ac13);
    set_bits(&mut f, 33, 88, mv);
    seal(&mut f, icao);
    f
}

/// DF17 / DF18 extended squitter with a 56-bit ME field.
pub fn df17_18(df: u64, icao: u32, ca: u64, me: u64) -> Vec<u8> {
    let mut f = vec![0u8; 14];
    set_bits(&mut f, 1, 5, df);
    set_bits(&mut f, 6, 8, ca);
    set_bits(&mut f, 9, 32, icao as u64);
    set_bits(&mut f, 33, 88, me);
    seal(&mut f, 0);
    f
}

/// DF20 (AC13) / DF21 (ID13) Comm-B reply with a 56-bit MB field.
pub fn df20_21(df: u64, icao: u32, fs: u64, dr: u64, um: u64, field13: u64, mb: u64) -> Vec<u8> {
    let mut f = vec![0u8; 14];
    set_bits(&mut f, 1, 5, df);
    set_bits(&mut f, 6, 8, fs);
    set_bits(&mut f, 9, 13, dr);
    set_bits(&mut f, 14, 19, um);
    set_bits(&mut f, 20, 32, field13);
    set_bits(&mut f, 33, 88, mb);
    seal(&mut f, icao);
    f
}

/// Any 5-bit DF with an arbitrary body; parity overlaid with `overlay`.
pub fn raw_frame(df: u64, long: bool, body: u128, overlay: u32) -> Vec<u8> {
    let n = if long { 14 } else { 7 };
    let mut f = vec![0u8; n];
    let body_bits = n * 8 - 24 - 5;
    for k in 0..body_bits {
        let bit = ((body >> (body_bits - 1 - k)) & 1) as u64;
        set_bits(&mut f, 6 + k, 6 + k, bit);
    }
    set_bits(&mut f, 1, 5, df);
    seal(&mut f, overlay);
    f
}

// ------------------------------------------------------------- field encoders

/// 13-bit altitude code (DF0/4/16/20), M=0 Q=1, from N = (alt+1000)/25.
pub fn ac13_q1(n: u64) -> u64 {
    ((n & 0x7E0) << 2) | ((n & 0x10) << 1) | 0x10 | (n & 0xF)
}

/// 12-bit altitude code of airborne position squitters, Q=1.
pub fn ac12_q1(n: u64) -> u64 {
    ((n & 0x7F0) << 1) | 0x10 | (n & 0xF)
}

pub fn alt_to_n(alt_ft: i64) -> u64 {
    ((alt_ft + 1000) / 25).clamp(0, 2047) as u64
}

/// 13-bit identity field from four octal digits A B C D.
/// Bit order: C1 A1 C2 A2 C4 A4 X B1 D1 B2 D2 B4 D4.
pub fn id13(a: u64, b: u64, c: u64, d: u64) -> u64 {
    let bit = |v: u64, k: u64| (v >> k) & 1;
    let seq = [
        bit(c, 0), bit(a, 0), bit(c, 1), bit(a, 1), bit(c, 2), bit(a, 2), 0,
        bit(b, 0), bit(d, 0), bit(b, 1), bit(d, 1), bit(b, 2), bit(d, 2),
    ];
    seq.iter().fold(0, |acc, &x| (acc << 1) | x)
}

/// 6-bit character code for callsigns.
pub fn ais_code(ch: char) -> u64 {
    match ch {
        'A'..='Z' => ch as u64 - 64,
        '0'..='9' => ch as u64,
        _ => 32,
    }
}

pub fn pack_callsign(cs: &str) -> u64 {
    let mut v = 0u64;
    let chars: Vec<char> = cs.chars().collect();
    for i in 0..8 {
        let c = chars.get(i).copied().unwrap_or(' ');
        v = (v << 6) | ais_code(c);
    }
    v
}

pub fn me_ident(tc: u64, cat: u64, callsign48: u64) -> u64 {
    (tc << 51) | (cat << 48) | (callsign48 & 0xFFFF_FFFF_FFFF)
}

pub fn me_airborne_pos(tc: u64, ss: u64, saf: u64, ac12: u64, t: u64, f: u64, lat17: u64, lon17: u64) -> u64 {
    (tc << 51) | (ss << 49) | (saf << 48) | (ac12 << 36) | (t << 35) | (f << 34) | (lat17 << 17) | lon17
}

pub fn me_surface_pos(tc: u64, mov: u64, s: u64, trk: u64, t: u64, f: u64, lat17: u64, lon17: u64) -> u64 {
    (tc << 51) | (mov << 44) | (s << 43) | (trk << 36) | (t << 35) | (f << 34) | (lat17 << 17) | lon17
}

/// TC19 subtype 1/2 (ground velocity).
#[allow(clippy::too_many_arguments)]
pub fn me_velocity_gs(st: u64, dew: u64, vew: u64, dns: u64, vns: u64, vrsrc: u64, svr: u64, vr: u64, sdif: u64, dalt: u64, hi: u64) -> u64 {
    // hi = IC(1) IFR(1) NUC(3)
    (19 << 51) | (st << 48) | ((hi & 0x1F) << 43) | (dew << 42) | (vew << 32) | (dns << 31) | (vns << 21)
        | (vrsrc << 20) | (svr << 19) | (vr << 10) | (sdif << 7) | dalt
}

/// TC19 subtype 3/4 (airspeed / heading).
#[allow(clippy::too_many_arguments)]
pub fn me_velocity_as(st: u64, sh: u64, hdg: u64, t: u64, aspd: u64, vrsrc: u64, svr: u64, vr: u64, sdif: u64, dalt: u64, hi: u64) -> u64 {
    (19 << 51) | (st << 48) | ((hi & 0x1F) << 43) | (sh << 42) | (hdg << 32) | (t << 31) | (aspd << 21)
        | (vrsrc << 20) | (svr << 19) | (vr << 10) | (sdif << 7) | dalt
}

pub fn me_raw(tc: u64, rest51: u64) -> u64 {
    (tc << 51) | (rest51 & ((1u64 << 51) - 1))
}

// ------------------------------------------------------------------------ CPR

/// NL(lat) from its defining formula (DO-260B A.1.7.2 d).
pub fn nl_formula(lat: f64) -> i32 {
    let lat = lat.abs();
    if lat == 0.0 {
        return 59;
    }
    if lat == 87.0 {
        return 2;
    }
    if lat > 87.0 {
        return 1;
    }
    let nz = 15.0f64;
    let a = 1.0 - (std::f64::consts::PI / (2.0 * nz)).cos();
    let b = (std::f64::consts::PI / 180.0 * lat).cos().powi(2);
    let nl = 2.0 * std::f64::consts::PI / (1.0 - a / b).acos();
    nl.floor() as i32
}

/// The 58 transition latitudes between NL = k+1 and NL = k... computed from the formula.
pub fn nl_transition(nl: i32) -> f64 {
    // smallest |lat| at which NL drops below `nl` (nl in 2..=59)
    let nz = 15.0f64;
    let a = 1.0 - (std::f64::consts::PI / (2.0 * nz)).cos();
    let c = 1.0 - (2.0 * std::f64::consts::PI / nl as f64).cos();
    (180.0 / std::f64::consts::PI) * (a / c).sqrt().acos()
}

fn fmod_pos(a: f64, b: f64) -> f64 {
    a - b * (a / b).floor()
}

/// CPR-encodes an airborne position; returns (lat17, lon17).
pub fn cpr_encode(lat: f64, lon: f64, odd: bool) -> (u64, u64) {
    let i = if odd { 1.0 } else { 0.0 };
    let dlat = 360.0 / (60.0 - i);
    let yz = (131072.0 * fmod_pos(lat, dlat) / dlat + 0.5).floor();
    let rlat = dlat * (yz / 131072.0 + (lat / dlat).floor());
    let nl = nl_formula(rlat) - if odd { 1 } else { 0 };
    let dlon = 360.0 / (nl.max(1) as f64);
    let xz = (131072.0 * fmod_pos(lon, dlon) / dlon + 0.5).floor();
    ((yz as i64).rem_euclid(131072) as u64, (xz as i64).rem_euclid(131072) as u64)
}

/// The position a single CPR frame stands for, given a nearby reference
/// (used only to know the "encoded position" of a generated frame: quantised
/// ground truth).
pub fn cpr_local(lat17: u64, lon17: u64, odd: bool, ref_lat: f64, ref_lon: f64) -> (f64, f64) {
    let i = if odd { 1.0 } else { 0.0 };
    let dlat = 360.0 / (60.0 - i);
    let yz = lat17 as f64 / 131072.0;
    let j = (ref_lat / dlat).floor() + (0.5 + fmod_pos(ref_lat, dlat) / dlat - yz).floor();
    let rlat = dlat * (j + yz);
    let nl = nl_formula(rlat) - if odd { 1 } else { 0 };
    let dlon = 360.0 / (nl.max(1) as f64);
    let xz = lon17 as f64 / 131072.0;
    let m = (ref_lon / dlon).floor() + (0.5 + fmod_pos(ref_lon, dlon) / dlon - xz).floor();
    (rlat, dlon * (m + xz))
}

// -------------------------------------------------------------- Comm-B (MB)

fn put(mb: &mut u64, sb: u32, eb: u32, val: u64) {
    let n = eb - sb + 1;
    let shift = 56 - eb;
    let mask = ((1u64 << n) - 1) << shift;
    *mb = (*mb & !mask) | ((val << shift) & mask);
}

pub fn mb_get(mb: u64, sb: u32, eb: u32) -> u64 {
    let n = eb - sb + 1;
    (mb >> (56 - eb)) & ((1u64 << n) - 1)
}

/// BDS 1,7: 24 capability bits (MB 1-24), MB 25-56 zero.
pub fn mb_bds17(caps24: u64) -> u64 {
    let mut mb = 0;
    put(&mut mb, 1, 24, caps24);
    mb
}

pub const CAP_BDS20: u64 = 1 << (24 - 7);
pub const CAP_BDS40: u64 = 1 << (24 - 9);
pub const CAP_BDS44: u64 = 1 << (24 - 13);
pub const CAP_BDS50: u64 = 1 << (24 - 16);
pub const CAP_BDS60: u64 = 1 << (24 - 24);

pub fn mb_bds20(callsign48: u64) -> u64 {
    let mut mb = 0;
    put(&mut mb, 1, 8, 0x20);
    put(&mut mb, 9, 56, callsign48);
    mb
}

pub fn mb_bds30(rest48: u64) -> u64 {
    let mut mb = 0;
    put(&mut mb, 1, 8, 0x30);
    put(&mut mb, 9, 56, rest48);
    mb
}

pub fn mb_bds10(rest48: u64) -> u64 {
    let mut mb = 0;
    put(&mut mb, 1, 8, 0x10);
    put(&mut mb, 9, 56, rest48);
    mb
}

/// Raw field values of a BDS 4,0 register.
#[derive(Clone, Copy, Debug, Default)]
pub struct F40 {
    pub s_mcp: u64, pub mcp: u64,
    pub s_fms: u64, pub fms: u64,
    pub s_baro: u64, pub baro: u64,
    pub res40_47: u64,
    pub s_mode: u64, pub mode: u64,
    pub res52_53: u64,
    pub s_src: u64, pub src: u64,
}
pub fn mb_bds40(f: &F40) -> u64 {
    let mut mb = 0;
    put(&mut mb, 1, 1, f.s_mcp); put(&mut mb, 2, 13, f.mcp);
    put(&mut mb, 14, 14, f.s_fms); put(&mut mb, 15, 26, f.fms);
    put(&mut mb, 27, 27, f.s_baro); put(&mut mb, 28, 39, f.baro);
    put(&mut mb, 40, 47, f.res40_47);
    put(&mut mb, 48, 48, f.s_mode); put(&mut mb, 49, 51, f.mode);
    put(&mut mb, 52, 53, f.res52_53);
    put(&mut mb, 54, 54, f.s_src); put(&mut mb, 55, 56, f.src);
    mb
}
pub fn f40_of(mb: u64) -> F40 {
    F40 {
        s_mcp: mb_get(mb, 1, 1), mcp: mb_get(mb, 2, 13),
        s_fms: mb_get(mb, 14, 14), fms: mb_get(mb, 15, 26),
        s_baro: mb_get(mb, 27, 27), baro: mb_get(mb, 28, 39),
        res40_47: mb_get(mb, 40, 47),
        s_mode: mb_get(mb, 48, 48), mode: mb_get(mb, 49, 51),
        res52_53: mb_get(mb, 52, 53),
        s_src: mb_get(mb, 54, 54), src: mb_get(mb, 55, 56),
    }
}

/// Raw field values of a BDS 5,0 register (sign bit and magnitude kept apart).
#[derive(Clone, Copy, Debug, Default)]
pub struct F50 {
    pub s_roll: u64, pub roll_sign: u64, pub roll: u64,
    pub s_trk: u64, pub trk_sign: u64, pub trk: u64,
    pub s_gs: u64, pub gs: u64,
    pub s_tar: u64, pub tar_sign: u64, pub tar: u64,
    pub s_tas: u64, pub tas: u64,
}
pub fn mb_bds50(f: &F50) -> u64 {
    let mut mb = 0;
    put(&mut mb, 1, 1, f.s_roll); put(&mut mb, 2, 2, f.roll_sign); put(&mut mb, 3, 11, f.roll);
    put(&mut mb, 12, 12, f.s_trk); put(&mut mb, 13, 13, f.trk_sign); put(&mut mb, 14, 23, f.trk);
    put(&mut mb, 24, 24, f.s_gs); put(&mut mb, 25, 34, f.gs);
    put(&mut mb, 35, 35, f.s_tar); put(&mut mb, 36, 36, f.tar_sign); put(&mut mb, 37, 45, f.tar);
    put(&mut mb, 46, 46, f.s_tas); put(&mut mb, 47, 56, f.tas);
    mb
}
pub fn f50_of(mb: u64) -> F50 {
    F50 {
        s_roll: mb_get(mb, 1, 1), roll_sign: mb_get(mb, 2, 2), roll: mb_get(mb, 3, 11),
        s_trk: mb_get(mb, 12, 12), trk_sign: mb_get(mb, 13, 13), trk: mb_get(mb, 14, 23),
        s_gs: mb_get(mb, 24, 24), gs: mb_get(mb, 25, 34),
        s_tar: mb_get(mb, 35, 35), tar_sign: mb_get(mb, 36, 36), tar: mb_get(mb, 37, 45),
        s_tas: mb_get(mb, 46, 46), tas: mb_get(mb, 47, 56),
    }
}

#[derive(Clone, Copy, Debug, Default)]
pub struct F60 {
    pub s_hdg: u64, pub hdg_sign: u64, pub hdg: u64,
    pub s_ias: u64, pub ias: u64,
    pub s_mach: u64, pub mach: u64,
    pub s_baro: u64, pub baro_sign: u64, pub baro: u64,
    pub s_ivv: u64, pub ivv_sign: u64, pub ivv: u64,
}
pub fn mb_bds60(f: &F60) -> u64 {
    let mut mb = 0;
    put(&mut mb, 1, 1, f.s_hdg); put(&mut mb, 2, 2, f.hdg_sign); put(&mut mb, 3, 12, f.hdg);
    put(&mut mb, 13, 13, f.s_ias); put(&mut mb, 14, 23, f.ias);
    put(&mut mb, 24, 24, f.s_mach); put(&mut mb, 25, 34, f.mach);
    put(&mut mb, 35, 35, f.s_baro); put(&mut mb, 36, 36, f.baro_sign); put(&mut mb, 37, 45, f.baro);
    put(&mut mb, 46, 46, f.s_ivv); put(&mut mb, 47, 47, f.ivv_sign); put(&mut mb, 48, 56, f.ivv);
    mb
}
pub fn f60_of(mb: u64) -> F60 {
    F60 {
        s_hdg: mb_get(mb, 1, 1), hdg_sign: mb_get(mb, 2, 2), hdg: mb_get(mb, 3, 12),
        s_ias: mb_get(mb, 13, 13), ias: mb_get(mb, 14, 23),
        s_mach: mb_get(mb, 24, 24), mach: mb_get(mb, 25, 34),
        s_baro: mb_get(mb, 35, 35), baro_sign: mb_get(mb, 36, 36), baro: mb_get(mb, 37, 45),
        s_ivv: mb_get(mb, 46, 46), ivv_sign: mb_get(mb, 47, 47), ivv: mb_get(mb, 48, 56),
    }
}

#[cfg(test)]
mod tests {
    use super::*;
    #[test]
    fn crc_vectors() {
        // literature vectors also quoted in /repo's tests
        let f = from_hex("8D40621D58C382D690C8AC2863A7").unwrap();
        assert_eq!(crc24(&f[..11]), 0x2863A7);
        assert_eq!(syndrome(&f), 0);
        let g = from_hex("A0001838300000000000007ADA59").unwrap();
        assert_eq!(address(&g), Some(7453696));
        let h = from_hex("28001A1B1F0706").unwrap();
        assert_eq!(address(&h), Some(5023854));
        let k = from_hex("8D406B902015A678D4D220AA4BDA").unwrap();
        assert_eq!(syndrome(&k), 0);
    }
    #[test]
    fn nl_table() {
        assert_eq!(nl_formula(10.0), 59);
        assert_eq!(nl_formula(10.5), 58);
        assert_eq!(nl_formula(86.9), 2);
        assert_eq!(nl_formula(52.0), 36);
        assert!((nl_transition(59) - 10.47047130).abs() < 1e-7);
        assert!((nl_transition(3) - 86.53536998).abs() < 1e-7);
    }
    #[test]
    fn cpr_roundtrip() {
        let (lat, lon) = (52.2572, 3.91937);
        for odd in [false, true] {
            let (y, x) = cpr_encode(lat, lon, odd);
            let (rl, ro) = cpr_local(y, x, odd, lat, lon);
            assert!((rl - lat).abs() < 1e-4 && (ro - lon).abs() < 1e-4);
        }
        // 1090 riddle example
        let (y0, x0) = cpr_encode(52.2572, 3.91937, false);
        assert_eq!((y0, x0), (93000, 51372));
    }
    #[test]
    fn squawk_field() {
        // 7666 from A8000F8FC6500030A40000318121 has ID13 = 0x0F8F & 0x1FFF
        let f = from_hex("2800189A8E0F41").unwrap();
        assert_eq!(get_bits(&f, 20, 32), id13(5, 6, 1, 1));
    }
}

/// Altitude of a 13-bit AC field (DF0/4/16/20) when it is a plain 25-ft code (M = 0, Q = 1):
/// `Some(Some(ft))`, `Some(None)` when the value would be below 0 ft; `None` for every other encoding
/// (metric, Gillham, all-zero) - those are not judged here.
pub fn alt_of_ac13_q1(ac13: u64) -> Option<Option<u32>> {
    let m = (ac13 >> 6) & 1;
    let q = (ac13 >> 4) & 1;
    if m != 0 || q != 1 { return None; }
    let n = ((ac13 & 0x1F80) >> 2) | ((ac13 & 0x20) >> 1) | (ac13 & 0xF);
    let ft = 25 * n as i64 - 1000;
    Some(if ft >= 0 { Some(ft as u32) } else { None })
}

/// The same for the 12-bit field of airborne-position squitters (no M bit).
pub fn alt_of_ac12_q1(ac12: u64) -> Option<Option<u32>> {
    if (ac12 >> 4) & 1 != 1 { return None; }
    let n = ((ac12 & 0xFE0) >> 1) | (ac12 & 0xF);
    let ft = 25 * n as i64 - 1000;
    Some(if ft >= 0 { Some(ft as u32) } else { None })
}

/// Squawk (four octal digits as a decimal number ABCD) of a 13-bit identity field.
pub fn squawk_of_id13(id: u64) -> u32 {
    let b = |k: u32| ((id >> (12 - k)) & 1) as u32; // k = 0 is the first bit (C1)
    let (c1, a1, c2, a2, c4, a4, _x, b1, d1, b2, d2, b4, d4) = (b(0), b(1), b(2), b(3), b(4), b(5), b(6), b(7), b(8), b(9), b(10), b(11), b(12));
    let a = a4 * 4 + a2 * 2 + a1;
    let bb = b4 * 4 + b2 * 2 + b1;
    let c = c4 * 4 + c2 * 2 + c1;
    let d = d4 * 4 + d2 * 2 + d1;
    a * 1000 + bb * 100 + c * 10 + d
}
