//! C12 - rows live exactly as long as the aircraft is being heard.
use super::{viol, Prop, Tier};
use crate::exec::{self, Outcome};
use crate::gen::{self, Chunking, Kind};
use crate::refm::{self, Expiry};
use crate::rng::Rng;
use crate::row::{diff_fields, project, Snapshot};
use crate::script::{Case, Conn, Op, Script, Violation};
use crate::stats::{abstract_state, fnv, Stats};
use serde_json::json;
use squitterator::{Downlink, Plane, DF};
use std::collections::{BTreeMap, BTreeSet};
use std::sync::Arc;

pub fn prop() -> Prop {
    Prop {
        id: "C12",
        gen,
        check,
        quick_runs: 16_000,
        both_profiles: false,
        rule: "a run = 2-16 aircraft alternating talk spurts and silences whose lengths are drawn from {d-1, d-0.001, d, d+0.001, d+1, 3d, random} s for the run's delete_after d in {1,5,60,600,86400}; the refreshing frame of a spurt cycles through every format; a chatter aircraft keeps sweeps coming (in some runs nobody talks); -U on/off, -f subsets (excluded frames must not refresh), file or TCP with reconnects in the middle of silences; channel drops and duplicates; in 6 % of the runs the wall clock is set back once or twice (a row seen stale once may then be gone although it looks young again); delete_after also 9e12 / 1e15 / i64::MAX ('never'); every 4 000th run index is a table of 600-1500 aircraft going silent at once; non-trivial = at least one row expired and at least one row was refreshed after a silence; distinct = distinct scripts",
        level_text: "seeded schedules of frames and silences under a discrete-event clock (exact limits d and 10 s reachable); oracle = reference expiry model after every event: live rows present, last-contact stamp equals processing time of the latest accepted frame, stale rows gone after 12 accepted frames, re-created rows remember nothing, row-count bound",
    }
}

const REFRESH_KINDS: &[Kind] = &[
    Kind::Df0, Kind::Df4, Kind::Df5, Kind::Df11, Kind::Df16, Kind::Ident, Kind::SurfPos, Kind::AirPos, Kind::Vel12, Kind::Vel34,
    Kind::Gnss, Kind::Tc28, Kind::Tc29, Kind::Tc31, Kind::TcOther, Kind::Df18, Kind::Df20(gen::Reg::B20), Kind::Df20(gen::Reg::Random),
    Kind::Df21(gen::Reg::B17), Kind::Df21(gen::Reg::B50), Kind::Df20(gen::Reg::Zero),
];

fn gen(rng: &mut Rng, idx: u64, tier: Tier) -> Case {
    let s = 1_000_000i64;
    if idx % 4_000 == 5 {
        // a very full table going silent at once: 600-1500 aircraft heard once in one big read, then only one
        // talker; 12 accepted frames after the limit has passed all of them must be gone
        let d = *rng.pick(&[1i64, 5, 5, 60]);
        let n = rng.range(600, 1500) as usize;
        let base = (rng.bits(24) as u32 | 0x400000) & 0xFFF000;
        let mut many: Vec<gen::Ac> = (0..n).map(|i| gen::aircraft(rng, base + 1 + i as u32)).collect();
        let kind = *rng.pick(&[Kind::Df11, Kind::Df4, Kind::AirPos]);
        let mut ops = vec![Op::Data { dt_us: 0, bytes: crate::script::Bytes(gen::blob_of(rng, &mut many, n, kind)), tag: "many-rows".into() }];
        let mut talker = vec![gen::aircraft(rng, base + 0xFFF)];
        let first_gap = *rng.pick(&[d * s, d * s + 1, (d + 1) * s, 3 * d * s]);
        for i in 0..rng.range(14, 40) {
            let k = *rng.pick(&[Kind::Df11, Kind::AirPos, Kind::Df4, Kind::Vel12]);
            ops.push(Op::Data { dt_us: if i == 0 { first_gap } else { rng.range(0, 400_000) }, bytes: crate::script::Bytes(gen::blob_of(rng, &mut talker, 1, k)), tag: "talker".into() });
        }
        let mut args = vec![format!("--delete-after={}", d)];
        if rng.chance(0.5) { args.push("--use-update-method".into()); }
        let script = Script::file(args, ops);
        return Case { property: "C12".into(), mode: "many-rows".into(), script, args_b: None, log_level_b: None, meta: serde_json::Value::Null };
    }
    // now and then "never delete": a limit beyond anything a time stamp plus the limit can represent
    let d_opt = if rng.chance(0.04) { *rng.pick(&[9_000_000_000_000i64, 1_000_000_000_000_000, i64::MAX]) } else { *rng.pick(&[1i64, 5, 5, 60, 60, 600, 86_400]) };
    // the schedule below is laid out for a limit of at most a day
    let d = d_opt.min(86_400);
    let n_ac = match rng.below(20) { 0 | 1 => rng.range(8, 16), 2 => rng.range(24, 60), _ => rng.range(2, 5) } as usize;
    let addrs = gen::addresses(rng, n_ac);
    let mut acs: Vec<gen::Ac> = addrs.iter().map(|&a| gen::aircraft(rng, a)).collect();
    // two aircraft may well use the same callsign and squawk
    if acs.len() > 1 && rng.chance(0.3) { acs[1].callsign = acs[0].callsign.clone(); acs[1].sq = acs[0].sq; }
    let mut args = vec![format!("--delete-after={}", d_opt)];
    if rng.chance(0.45) { args.push("--use-update-method".into()); }
    if rng.chance(0.3) { args.push("--relaxed".into()); }
    if rng.chance(0.25) {
        // a filter that excludes some of the formats in use
        let all = [0u32, 4, 5, 11, 16, 17, 18, 20, 21];
        let keep: Vec<u32> = all.iter().copied().filter(|_| rng.chance(0.6)).collect();
        for k in if keep.is_empty() { vec![17] } else { keep } { args.push(format!("--filter={}", k)); }
    }
    gen::add_neutral_options(rng, &mut args, true, true);
    // schedule: absolute times per aircraft
    let horizon_frames = if tier == Tier::Thorough && rng.chance(0.05) { 400 } else { rng.range(20, 160) as usize };
    let mut events: Vec<(i64, usize, Kind)> = vec![];
    let chatter = rng.chance(0.8);
    let mut kind_ix = idx as usize;
    let mut t_end = 0i64;
    for a in 0..n_ac {
        if chatter && a == 0 { continue; }
        let mut t = rng.range(0, 2 * s);
        let spurts = rng.range(1, 4);
        for _ in 0..spurts {
            let k = rng.range(1, 4);
            for j in 0..k {
                // the first frame of a spurt is the refreshing one: cycle through every format
                let kind = if j == 0 { kind_ix += 1; REFRESH_KINDS[kind_ix % REFRESH_KINDS.len()] } else { *rng.pick(REFRESH_KINDS) };
                events.push((t, a, kind));
                if j + 1 < k { t += rng.range(0, (d * s / 4).clamp(1, 3 * s)); }
            }
            let sil = match rng.below(10) {
                0 => (d - 1).max(0) * s,
                1 => d * s - 1000,
                2 => d * s - 1,
                3 => d * s,
                4 => d * s + 1,
                5 => d * s + 1000,
                6 => (d + 1) * s,
                7 => 3 * d * s,
                8 if rng.chance(0.3) => rng.range(20, 70) * 86_400 * s, // weeks of silence
                _ => rng.range(0, 2 * d * s),
            };
            t += sil;
        }
        t_end = t_end.max(t);
    }
    if chatter {
        // regular talker so that sweeps happen
        let step = (d * s / rng.range(6, 40)).max(200_000);
        let mut t = 0;
        let mut n = 0;
        while t <= t_end + 14 * step && n < horizon_frames {
            events.push((t, 0, *rng.pick(&[Kind::Df11, Kind::AirPos, Kind::Df4, Kind::Vel12, Kind::Df20(gen::Reg::B20)])));
            t += step + rng.range(0, step / 4);
            n += 1;
        }
    }
    events.sort_by_key(|e| e.0);
    events.truncate((horizon_frames.max(20) * 2).max(n_ac * 6));
    let mut lines: Vec<(i64, Vec<u8>, String)> = vec![];
    let mut prev = 0i64;
    for (t, a, kind) in events {
        if rng.chance(0.04) { continue; } // channel drop
        // aircraft climb, descend and change codes while they are silent
        if rng.chance(0.3) { acs[a].alt_n = rng.range(41, 1800) as u64; }
        if rng.chance(0.1) { acs[a].sq = [rng.below(8), rng.below(8), rng.below(8), rng.below(8)]; }
        let f = gen::frame(rng, &mut acs[a], kind, false);
        let line = gen::line_of(rng, &f, false);
        lines.push((t - prev, line.clone(), format!("{:?}", kind).to_lowercase()));
        prev = t;
        if rng.chance(0.05) { lines.push((0, line, format!("{:?}:duplicate", kind).to_lowercase())); }
    }
    gen::clock_steps_back(rng, &mut lines, 0.06);
    gen::near_time_boundary(rng, &mut lines, 0.03);
    let ch = *rng.pick(&[Chunking::Line, Chunking::Line, Chunking::Line, Chunking::Multi]);
    let tcp = rng.chance(0.35);
    let mut script = Script::file(args, vec![]);
    script.tcp = tcp;
    if tcp {
        let n_conn = rng.range(1, 4) as usize;
        let per = (lines.len() / n_conn).max(1);
        let mut conns = vec![];
        let mut it = lines.into_iter().peekable();
        for c in 0..n_conn {
            let mut part = vec![];
            while it.peek().is_some() && (c + 1 == n_conn || part.len() < per) { part.push(it.next().unwrap()); }
            let mut ops = gen::ops_of(rng, part, ch);
            if c + 1 < n_conn {
                // reconnect in the middle of whatever silence comes next
                ops.push(if rng.chance(0.5) { Op::Eof { dt_us: 0 } } else { Op::Err { dt_us: 0, kind: "ConnectionReset".into() } });
            }
            conns.push(Conn::Accept { ops });
            if c + 1 < n_conn && rng.chance(0.3) { conns.push(Conn::Refuse { kind: "ConnectionRefused".into(), dt_us: 0 }); }
        }
        script.conns = conns;
    } else {
        script.conns = vec![Conn::Accept { ops: gen::ops_of(rng, lines, ch) }];
    }
    Case { property: "C12".into(), mode: String::new(), script, args_b: None, log_level_b: None, meta: serde_json::Value::Null }
}

/// The row a first-ever frame creates (public constructors), at clock `t_us`.
fn fresh_row(line: &[u8], addr: u32, t_us: i64) -> Option<crate::row::Row> {
    let text = String::from_utf8_lossy(line);
    let msg = squitterator::get_message(&text)?;
    simchrono::sim_set_now_us(t_us);
    let dl = DF::from_message(&msg).ok()?;
    Some(project(&Plane::from_downlink(&dl, addr)))
}

fn check(case: &Case, st: &mut Stats) -> Vec<Violation> {
    let h = exec::run(&case.script);
    st.observe(case, &h);
    if let Outcome::Panic(_) | Outcome::Wedge(_) = h.outcome { st.discarded_by_crash += 1; return vec![]; }
    let mut v = vec![];
    let d = case.script.delete_after();
    let filter = case.script.filter();
    let mut model = Expiry::new(d);
    let empty: Arc<Snapshot> = Arc::new(Snapshot::new());
    let mut cur_conn = usize::MAX;
    let mut seen_absent: BTreeSet<u32> = BTreeSet::new();
    let mut ever: BTreeSet<u32> = BTreeSet::new();
    let mut expired = 0;
    let mut refreshed_after_silence = 0;
    let uflag = if case.script.has_arg("--use-update-method") { "U" } else { "-" };
    'steps: for (i, s) in h.steps.iter().enumerate() {
        let before = if i == 0 { &empty } else { &h.steps[i - 1].after };
        if s.conn != cur_conn {
            if cur_conn != usize::MAX { model.reconnect(); st.probe("reconnect_mid_history"); }
            cur_conn = s.conn;
        }
        st.state(abstract_state(&s.after, s.t_us, d, uflag, s.tag.split(':').next().unwrap_or("")));
        let mut per_addr: BTreeMap<u32, Vec<&Vec<u8>>> = BTreeMap::new();
        let mut unjudged = false;
        for l in &s.lines {
            let c = refm::classify(l);
            if !c.accepted { continue; }
            if let Some(f) = &filter { if !f.contains(&c.df) { st.probe("filtered_frame_seen"); continue; } }
            if !c.judged { unjudged = true; continue; }
            let a = c.addr.unwrap();
            if s.tag.contains("clock-back") { st.probe("clock_set_back"); }
            if let Some(&t) = model.last.get(&a) {
                let gap = s.t_us - t;
                let d_us = d.saturating_mul(1_000_000);
                if gap == d_us { st.probe("silence_exactly_d"); }
                if gap == d_us - 1 { st.probe("silence_d_minus_1us"); }
                if gap >= (d - 1).max(0).saturating_mul(1_000_000) && gap < d_us { refreshed_after_silence += 1; }
                if d > 1_000_000_000 && gap > 86_400_000_000 { st.probe("never_delete_long_silence"); }
            }
            model.accept(a, s.t_us);
            ever.insert(a);
            per_addr.entry(a).or_default().push(l);
        }
        if unjudged { continue; }
        st.oracle_evals += 1;
        for a in before.keys() { if !s.after.contains_key(a) { expired += 1; st.probe("row_removed"); } }
        // a live aircraft is always in the table, and its age restarted with its latest frame
        for a in model.must_be_present(s.t_us) {
            match s.after.get(&a) {
                None => {
                    let df = per_addr.get(&a).and_then(|ls| ls.last()).map(|l| refm::classify(l).df);
                    v.push(viol("C12.lost-live-row", i, format!("aircraft {:06X} was heard {:.6} s ago (delete_after = {} s) but is not in the table", a, (s.t_us - model.last[&a]) as f64 / 1e6, d), json!({"df_of_last_frame_in_step": df})));
                    break 'steps;
                }
                Some(r) => {
                    if r.timestamp != model.last[&a] {
                        let df = per_addr.get(&a).and_then(|ls| ls.last()).map(|l| refm::classify(l).df);
                        v.push(viol("C12.age-not-restarted", i, format!("row {:06X}: last-contact stamp is {:.6} s but its latest accepted frame was processed at {:.6} s (tag {})", a, (r.timestamp - exec::T0_US) as f64 / 1e6, (model.last[&a] - exec::T0_US) as f64 / 1e6, s.tag), json!({"df": df, "use_update_method": uflag == "U"})));
                        break 'steps;
                    }
                }
            }
        }
        // filtered / rejected lines must not refresh anything: rows not addressed keep their stamp
        for (a, rb) in before.iter() {
            if per_addr.contains_key(a) { continue; }
            if let Some(ra) = s.after.get(a) {
                if ra.timestamp != rb.timestamp {
                    v.push(viol("C12.age-not-restarted", i, format!("row {:06X}: last-contact stamp moved from {:.6} to {:.6} s although no accepted frame of it was processed (filter {:?})", a, (rb.timestamp - exec::T0_US) as f64 / 1e6, (ra.timestamp - exec::T0_US) as f64 / 1e6, filter), json!({"unaddressed": true})));
                    break 'steps;
                }
            }
        }
        // stale for 12 accepted frames => gone
        for a in model.must_be_absent(s.t_us) {
            if s.after.contains_key(&a) {
                v.push(viol("C12.zombie", i, format!("aircraft {:06X} silent for {:.3} s (>= {} s) is still listed after {} further accepted frames", a, (s.t_us - model.last[&a]) as f64 / 1e6, d, model.stale_frames[&a]), json!({})));
                break 'steps;
            }
        }
        // fresh row remembers nothing
        for (a, ls) in &per_addr {
            if seen_absent.contains(a) && !before.contains_key(a) && ls.len() == 1 {
                if let (Some(r), Some(f)) = (s.after.get(a), fresh_row(ls[0], *a, s.t_us)) {
                    st.probe("row_expired_then_reborn");
                    if *r != f {
                        v.push(viol("C12.memory", i, format!("re-created row {:06X} differs from the row a first frame creates: {}", a, diff_fields(&f, r).join("; ")), json!({})));
                        break 'steps;
                    }
                }
            }
        }
        for a in &ever { if !s.after.contains_key(a) { seen_absent.insert(*a); } else if per_addr.contains_key(a) { seen_absent.remove(a); } }
        // bound: every row belongs to an aircraft that was live at some point of the last 12 accepted
        // frames (the zombie rule above) - and to an aircraft that was heard at all
        let live = model.last.keys().filter(|a| !model.is_stale(**a, s.t_us)).count();
        let lingering = model.last.keys().filter(|a| model.is_stale(**a, s.t_us) && model.stale_frames.get(a).copied().unwrap_or(0) < 12).count();
        if let Some(k) = s.after.keys().find(|k| !model.last.contains_key(k)) {
            v.push(viol("C12.bound", i, format!("row {:06X} is listed although no accepted frame of it was ever processed ({} rows; {} live, {} stale for fewer than 12 frames)", k, s.after.len(), live, lingering), json!({})));
            break 'steps;
        }
        if s.after.len() > live + lingering {
            v.push(viol("C12.bound", i, format!("{} rows in the table but only {} addresses heard within {} s plus {} that went stale within the last 12 accepted frames", s.after.len(), live, d, lingering), json!({})));
            break 'steps;
        }
    }
    if expired > 0 && refreshed_after_silence > 0 {
        st.nontrivial_runs += 1;
        if st.scripts.len() < crate::stats::MAX_SET { st.scripts.insert(fnv(serde_json::to_string(&case.script).unwrap().as_bytes())); }
    }
    v
}
