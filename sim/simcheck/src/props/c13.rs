//! C13 - unusable lines affect nothing but themselves.
use super::{viol, Prop, Tier};
use crate::exec::{self, History, Outcome, StepKind};
use crate::gen::{self, Kind};
use crate::modes;
use crate::refm;
use crate::rng::Rng;
use crate::row::diff_snap;
use crate::script::{Bytes, Case, Conn, Op, Script, Violation};
use crate::stats::{abstract_state, fnv, Stats};
use serde_json::json;

pub fn prop() -> Prop {
    Prop {
        id: "C13",
        gen,
        check,
        quick_runs: 16_000,
        both_profiles: false,
        rule: "a run = a valid multi-aircraft stream with junk lines from the catalogue (empty, blank, text, hex of 13/15/27/29/41.. digits, bytes 0x80-0xFF, NUL, lone CR, >64 KiB, cut multi-byte sequences, truncated frames, parity-failing squitters, length/DF-mismatched frames, zero-address frames) inserted at random positions, delivered through a file or TCP connections with random read boundaries, executed twice: as is, and reduced to its accepted lines at identical processing times; stalled peers: line tails arriving 10-40 s late, also a junk line whose late tail alone is a valid frame; 0.5 % of the runs contain a flood of 65 600-70 000 junk lines; non-trivial = at least one junk line and one accepted line were processed; distinct = distinct scripts",
        level_text: "seeded differential simulation: junk-laden stream vs its accepted subsequence under identical simulated clocks; oracle: identical tables (every field, time stamps included) after every accepted group and at the end, and the reader consumed the whole stream",
    }
}

fn junk_frame(rng: &mut Rng, acs: &mut [gen::Ac]) -> (Vec<u8>, String) {
    let a = rng.below(acs.len() as u64) as usize;
    match rng.below(3) {
        0 => {
            // squitter with failing parity
            let k = *rng.pick(&[Kind::Df11, Kind::Ident, Kind::AirPos, Kind::Vel12]);
            let mut f = gen::frame(rng, &mut acs[a], k, true);
            let n = f.len() * 8;
            if k != Kind::Df11 && rng.chance(0.15) {
                // damage confined to the last seven parity bits
                modes::flip_bit(&mut f, rng.range(n as i64 - 6, n as i64) as usize);
            } else {
                modes::flip_bit(&mut f, rng.range(6, n as i64) as usize);
                if rng.chance(0.5) { modes::flip_bit(&mut f, rng.range(6, n as i64) as usize); }
            }
            // (a DF11 whose remainder has only interrogator-code bits is not junk; a DF17 damaged only there is)
            if modes::syndrome(&f) >> 7 == 0 && (k == Kind::Df11 || modes::syndrome(&f) == 0) { modes::flip_bit(&mut f, 40); }
            (gen::line_of(rng, &f, true), "junk-parity".into())
        }
        1 => {
            // long format in 14 digits / short format in 28 digits
            let k = *rng.pick(&[Kind::AirPos, Kind::Df20(gen::Reg::B20), Kind::Ident]);
            let f = gen::frame(rng, &mut acs[a], k, true);
            let h = modes::to_hex(&f);
            if rng.chance(0.5) {
                (format!("{}\n", &h[..14]).into_bytes(), "junk-lendf".into())
            } else {
                let s = gen::frame(rng, &mut acs[a], Kind::Df4, true);
                (format!("{}{}\n", modes::to_hex(&s), &h[..14]).into_bytes(), "junk-lendf".into())
            }
        }
        _ => {
            // address zero
            let mut z = gen::aircraft(rng, 0);
            let k = *rng.pick(&[Kind::Df11, Kind::Df4, Kind::Ident, Kind::Df20(gen::Reg::B20)]);
            let f = gen::frame(rng, &mut z, k, true);
            (gen::line_of(rng, &f, false), "junk-zeroaddr".into())
        }
    }
}

fn gen(rng: &mut Rng, _idx: u64, tier: Tier) -> Case {
    let n_ac = rng.range(1, 4) as usize;
    let addrs = gen::addresses(rng, n_ac);
    let mut acs: Vec<gen::Ac> = addrs.iter().map(|&a| gen::aircraft(rng, a)).collect();
    let mut args: Vec<String> = vec![];
    if rng.chance(0.4) { args.push("--use-update-method".into()); }
    if rng.chance(0.3) { args.push("--relaxed".into()); }
    let d = *rng.pick(&[1i64, 5, 60, 600]);
    args.push(format!("--delete-after={}", d));
    if rng.chance(0.5) { args.push("--update=-1".into()); }
    if rng.chance(0.3) { args.push("--count-df".into()); }
    if rng.chance(0.2) { for k in [0u32, 4, 5, 11, 16, 17, 18, 20, 21] { if rng.chance(0.6) { args.push(format!("--filter={}", k)); } } }
    gen::add_neutral_options(rng, &mut args, false, true);
    let n = if tier == Tier::Thorough && rng.chance(0.05) { rng.range(100, 600) } else { rng.range(2, 40) } as usize;
    let valid = gen::traffic(rng, &mut acs, n, d, gen::COMMON_KINDS, false, true, 15_000_000);
    // insert junk
    let junk_rate = *rng.pick(&[0.1, 0.3, 0.6, 1.5]);
    let mut lines: Vec<(i64, Vec<u8>, String)> = vec![];
    let push_junk = |rng: &mut Rng, lines: &mut Vec<(i64, Vec<u8>, String)>, acs: &mut [gen::Ac]| {
        let mut budget = junk_rate;
        while rng.f64() < budget {
            budget -= 1.0;
            let (b, tag) = if rng.chance(0.2) { junk_frame(rng, acs) } else { let k = *rng.pick(gen::JUNK_KINDS); (gen::junk(rng, k), format!("junk-{}", k)) };
            let dt = if rng.chance(0.7) { 0 } else { gen::gap_us(rng, d).min(3_000_000) };
            lines.push((dt, b, format!("junk:{}", tag)));
        }
    };
    // a receiver-time-stamped feed ("@<12 hex ticks><frame>;", 12 MHz ticks following the simulated clock):
    // valid lines carry increasing time stamps, some junk lines carry a time stamp slightly ahead
    let stamped = rng.chance(0.3);
    let mut clock_us: i64 = rng.range(0, 1 << 36);
    let stamp = |t_us: i64, frame_hex: &str| -> Vec<u8> { format!("@{:012X}{};\n", (t_us * 12) & 0xFFFF_FFFF_FFFF, frame_hex).into_bytes() };
    // a long run of consecutive junk lines somewhere in the stream
    let burst_at = if rng.chance(0.15) { Some(rng.below(valid.len() as u64 + 1) as usize) } else { None };
    // very rarely: tens of thousands of junk lines (more than 65 536) before the valid traffic goes on
    let flood_at = if rng.chance(0.005) { Some(rng.below(valid.len() as u64 + 1) as usize) } else { None };
    for (vi, mut l) in valid.into_iter().enumerate() {
        if burst_at == Some(vi) {
            for _ in 0..rng.range(60, 300) {
                let k = *rng.pick(&["empty", "blank", "text", "hex13", "hex27", "high-bytes", "lone-cr", "truncated-frame", "semicolon-only", "nul"]);
                lines.push((0, gen::junk(rng, k), format!("junk:burst-{}", k)));
            }
        }
        if flood_at == Some(vi) {
            let mut blob: Vec<u8> = vec![];
            for _ in 0..rng.range(65_600, 70_000) { blob.extend_from_slice(*rng.pick(&[&b"\n"[..], b" \n", b";\n", b"*;\n", b"x\n"])); }
            lines.push((0, blob, "junk:flood".into()));
        }
        push_junk(rng, &mut lines, &mut acs);
        clock_us += l.0;
        if stamped {
            let c = refm::classify(&l.1[..l.1.len() - 1]);
            if let Some(f) = &c.frame {
                if rng.chance(0.25) {
                    // rejected 26/40-digit line stamped a little ahead of the feed
                    let mut bad = f.clone();
                    if matches!(c.df, 11 | 17 | 18) { let n = bad.len() * 8; modes::flip_bit(&mut bad, rng.range(9, n as i64 - 24) as usize); if modes::syndrome(&bad) >> 7 == 0 { modes::flip_bit(&mut bad, 40); } } else { bad.truncate(7); if modes::df_of(&bad) < 16 { bad = vec![0xFF; 7]; } }
                    let ahead = rng.range(1, 900_000);
                    let bl = stamp(clock_us + ahead, &modes::to_hex(&bad));
                    if !kept(&bl[..bl.len() - 1]) { lines.push((0, bl, "junk:junk-stamped-ahead".into())); }
                }
                l.1 = stamp(clock_us, &modes::to_hex(f));
            }
        }
        lines.push(l);
    }
    push_junk(rng, &mut lines, &mut acs);
    gen::long_uptime(rng, &mut lines, 0.03);
    // read boundaries: anywhere, across lines too
    let mode = rng.below(3);
    let mut ops: Vec<Op> = vec![];
    match mode {
        0 => ops = gen::ops_of(rng, lines, gen::Chunking::Line),
        1 => ops = gen::ops_of(rng, lines, gen::Chunking::Pieces),
        _ => {
            // arbitrary cuts of the concatenated stream; gaps are attached to the op in which a line starts
            let mut cur: Vec<u8> = vec![];
            let mut cur_dt = 0i64;
            for (dt, b, _) in lines {
                if dt > 0 && !cur.is_empty() {
                    ops.push(Op::Data { dt_us: cur_dt, bytes: Bytes(std::mem::take(&mut cur)), tag: String::new() });
                    cur_dt = 0;
                }
                cur_dt += dt;
                let mut off = 0;
                while off < b.len() {
                    let n = if rng.chance(0.5) { b.len() - off } else { (rng.below((b.len() - off) as u64) + 1) as usize };
                    cur.extend_from_slice(&b[off..off + n]);
                    off += n;
                    if rng.chance(0.4) {
                        ops.push(Op::Data { dt_us: cur_dt, bytes: Bytes(std::mem::take(&mut cur)), tag: String::new() });
                        cur_dt = 0;
                    }
                }
            }
            if !cur.is_empty() { ops.push(Op::Data { dt_us: cur_dt, bytes: Bytes(cur), tag: String::new() }); }
        }
    }
    // optionally no newline at the very end
    if rng.chance(0.3) {
        if let Some(Op::Data { bytes, .. }) = ops.last_mut() {
            if bytes.0.ends_with(b"\n") && bytes.0.len() > 1 { bytes.0.pop(); }
        }
    }
    // a stalled peer: the first bytes of a junk line arrive, the rest - which on its own would be a perfectly
    // valid frame of an aircraft nobody has heard of - follows 10 to 40 s later (longer than any sensible
    // receive time-out)
    if rng.chance(0.08) {
        let spots: Vec<usize> = (0..=ops.len()).filter(|&i| i == 0 || matches!(&ops[i - 1], Op::Data { bytes, .. } if bytes.0.ends_with(b"\n"))).collect();
        let at = *rng.pick(&spots);
        let stranger_addr = (rng.bits(24) as u32) | 0x10;
        let mut stranger = gen::aircraft(rng, stranger_addr);
        let stranger_kind = *rng.pick(&[Kind::Ident, Kind::Df11, Kind::AirPos]);
        let f = gen::frame(rng, &mut stranger, stranger_kind, true);
        let hex = modes::to_hex(&f);
        let prefix = *rng.pick(&["12", "00zz", "ABCDEF12", "xx 1", "8D"]);
        if !kept(format!("{}{}", prefix, hex).as_bytes()) {
            ops.insert(at, Op::Data { dt_us: rng.range(10_100_000, 40_000_000), bytes: Bytes(format!("{}\n", hex).into_bytes()), tag: "junk:late-tail-is-a-frame".into() });
            ops.insert(at, Op::Data { dt_us: 0, bytes: Bytes(prefix.as_bytes().to_vec()), tag: "junk:stalled-line-head".into() });
        }
    }
    let tcp = rng.chance(0.4);
    let mut script = Script::file(args, vec![]);
    script.tcp = tcp;
    if tcp {
        // junk inside connections that stay open; peers may close cleanly in between
        let n_conn = rng.range(1, 3) as usize;
        let per = (ops.len() / n_conn).max(1);
        let mut conns = vec![];
        if rng.chance(0.1) {
            // a first session that delivers nothing usable at all
            let mut j = vec![];
            for _ in 0..rng.range(1, 4) { let k = *rng.pick(gen::JUNK_KINDS); j.push(Op::Data { dt_us: 0, bytes: Bytes(gen::junk(rng, k)), tag: format!("junk:junk-{}", k) }); }
            j.push(Op::Eof { dt_us: 0 });
            conns.push(Conn::Accept { ops: j });
        }
        let mut it = ops.into_iter().peekable();
        for c in 0..n_conn {
            let mut part: Vec<Op> = vec![];
            while it.peek().is_some() && (c + 1 == n_conn || part.len() < per) { part.push(it.next().unwrap()); }
            if c + 1 < n_conn { part.push(Op::Eof { dt_us: 0 }); }
            conns.push(Conn::Accept { ops: part });
        }
        script.conns = conns;
    } else {
        if rng.chance(0.5) { ops.push(Op::Eof { dt_us: 0 }); }
        script.conns = vec![Conn::Accept { ops }];
    }
    Case { property: "C13".into(), mode: String::new(), script, args_b: None, log_level_b: None, meta: serde_json::Value::Null }
}

fn kept(line: &[u8]) -> bool {
    let c = refm::classify(line);
    c.accepted
}

/// The stream reduced to its accepted lines, every group at the clock it had in the dirty run.
fn clean_script(dirty: &Script, h: &History) -> (Script, Vec<usize>) {
    reduced_script(dirty, h, &|l| kept(l))
}

/// The stream of a recorded run reduced to the lines `keep` selects, every group of lines at the clock it had
/// in the recorded run (connections, refusals and orderly closes stay as they were).
pub fn reduced_script(dirty: &Script, h: &History, keep: &dyn Fn(&[u8]) -> bool) -> (Script, Vec<usize>) {
    let mut conns: Vec<Conn> = dirty.conns.iter().map(|c| match c { Conn::Accept { .. } => Conn::Accept { ops: vec![] }, r => r.clone() }).collect();
    let mut prev_t = exec::T0_US;
    let mut dirty_steps = vec![];
    for (i, s) in h.steps.iter().enumerate() {
        let acc: Vec<&Vec<u8>> = s.lines.iter().filter(|l| keep(l)).collect();
        let Conn::Accept { ops } = &mut conns[s.conn] else { continue };
        if !acc.is_empty() {
            let mut b = vec![];
            for l in &acc { b.extend_from_slice(l); b.push(b'\n'); }
            ops.push(Op::Data { dt_us: s.t_us - prev_t, bytes: Bytes(b), tag: "accepted".into() });
            prev_t = s.t_us;
            dirty_steps.push(i);
        }
        if s.kind == StepKind::Eof && s.tag != "implicit-eof" {
            ops.push(Op::Eof { dt_us: s.t_us - prev_t });
            prev_t = s.t_us;
        }
    }
    let mut c = dirty.clone();
    c.conns = conns;
    (c, dirty_steps)
}

fn check(case: &Case, st: &mut Stats) -> Vec<Violation> {
    let hd = exec::run(&case.script);
    st.observe(case, &hd);
    let mut v = vec![];
    let last = hd.steps.len().saturating_sub(1);
    let n_junk: usize = hd.steps.iter().map(|s| s.lines.iter().filter(|l| !kept(l)).count()).sum();
    let n_acc: usize = hd.steps.iter().map(|s| s.lines.iter().filter(|l| kept(l)).count()).sum();
    // ambiguous lines (frame-shaped but not valid UTF-8) are never generated; if a minimiser creates one, give up
    if hd.steps.iter().any(|s| s.lines.iter().any(|l| { let c = refm::classify(l); c.frame.is_some() && c.has_non_utf8 })) { return v; }
    match &hd.outcome {
        Outcome::Panic(m) => {
            v.push(viol("C13.early-end", last, format!("junk-laden stream: reader thread panicked ({}) - processing ended early", m), json!({"how": "panic", "last_tag": hd.steps.last().map(|s| s.tag.clone())})));
            return v;
        }
        Outcome::Wedge(m) => { v.push(viol("C13.early-end", last, format!("junk-laden stream: {}", m), json!({"how": "wedge"}))); return v; }
        Outcome::FileEarly | Outcome::ReturnedErr(_) | Outcome::ReturnedTcp => {
            v.push(viol("C13.early-end", last, format!("junk-laden stream: reader stopped with {:?} before the stream was served ({} ops unread)", hd.outcome, hd.unread_ops), json!({"how": "returned"})));
            return v;
        }
        _ => {}
    }
    if hd.unread_ops > 0 {
        v.push(viol("C13.early-end", last, format!("reader abandoned the stream: {} scripted ops were never read (last step tag {:?})", hd.unread_ops, hd.steps.last().map(|s| s.tag.clone())), json!({"how": "unread"})));
        return v;
    }
    let (clean, dirty_steps) = clean_script(&case.script, &hd);
    let hc = exec::run(&clean);
    st.executions += 1;
    if let Outcome::Panic(_) | Outcome::Wedge(_) = hc.outcome { st.discarded_by_crash += 1; return v; }
    let clean_steps: Vec<usize> = hc.steps.iter().enumerate().filter(|(_, s)| !s.lines.is_empty() && s.kind == StepKind::Data || (s.kind == StepKind::Eof && !s.lines.is_empty())).map(|(i, _)| i).collect();
    let d = case.script.delete_after();
    if clean_steps.len() == dirty_steps.len() {
        for (k, (&di, &ci)) in dirty_steps.iter().zip(clean_steps.iter()).enumerate() {
            st.oracle_evals += 1;
            let (sd, sc) = (&hd.steps[di], &hc.steps[ci]);
            st.state(abstract_state(&sd.after, sd.t_us, d, "", ""));
            if sd.t_us != sc.t_us { continue; } // harness could not reproduce the clock (not a verdict)
            if *sd.after != *sc.after {
                let junk_before: Vec<String> = hd.steps[..=di].iter().rev().flat_map(|s| s.lines.iter().rev()).filter(|l| !kept(l)).take(1).map(|l| crate::script::escape(&l[..l.len().min(60)])).collect();
                v.push(viol("C13.diverged", di, format!("after accepted group #{} the junk-laden run and the clean run differ (clean -> dirty): {}; nearest junk line before: {:?}", k, diff_snap(&sc.after, &sd.after).join(" | "), junk_before), json!({"group": k})));
                break;
            }
        }
    }
    if v.is_empty() && *hd.final_table != *hc.final_table {
        v.push(viol("C13.diverged", last, format!("final tables differ (clean -> dirty): {}", diff_snap(&hc.final_table, &hd.final_table).join(" | ")), json!({"group": "final"})));
    }
    if n_junk > 0 && n_acc > 0 {
        st.nontrivial_runs += 1;
        if st.scripts.len() < crate::stats::MAX_SET { st.scripts.insert(fnv(serde_json::to_string(&case.script).unwrap().as_bytes())); }
    }
    for s in &hd.steps {
        if s.lines.is_empty() && s.kind == StepKind::Data { st.probe("line_split_across_reads"); }
        for l in &s.lines {
            if !kept(l) {
                if l.len() > 65536 { st.probe("junk_over_64k"); }
                if std::str::from_utf8(l).is_err() { st.probe("junk_not_utf8"); }
            }
        }
    }
    v
}
