//! C11 - each parameter shows the latest value its own frames carried; no cross-talk.
use super::{viol, Prop, Tier};
use crate::carried::{carried, norm_ais, Carried};
use crate::ehs;
use crate::exec::{self, Outcome};
use crate::gen::{self, Chunking, Kind, Reg};
use crate::modes;
use crate::refm::{self, Expiry};
use crate::rng::Rng;
use crate::row::{diff_fields, Row, Snapshot};
use crate::script::{Case, Script, Violation};
use crate::stats::{abstract_state, fnv, Stats};
use serde_json::json;
use std::sync::Arc;

pub fn prop() -> Prop {
    Prop {
        id: "C11",
        gen,
        check,
        quick_runs: 24_000,
        both_profiles: false,
        rule: "a run = an interleaved history of well-formed frames of every supported format (valid and no-valid-value variants of each carrier) for 1-4 aircraft with time steps in between (incl. > 10 s and > delete_after), zero-delay and delayed duplicates, -U/-R on/off; every third run index enumerates short histories (length 2-4) densely over a reduced alphabet of 2 aircraft x 13 frame kinds x valid/invalid; the rest are random (length 3-60); bursts of 30-120 frames of one aircraft within a second; long uptime and calendar boundaries; non-trivial = at least two carrier frames of the same parameter reached one row; distinct = distinct scripts",
        level_text: "seeded refinement check against a small executable fold ('latest carrier wins') after every event; the value a frame carries is taken from the decoder's own state-free decode, so the check judges routing, overwriting, clearing, cross-talk and idempotence - not field decoding",
    }
}

const ALPHA: &[Kind] = &[
    Kind::Df4, Kind::Df5, Kind::Df11, Kind::Ident, Kind::SurfPos, Kind::AirPos, Kind::Vel12, Kind::Vel34, Kind::Gnss, Kind::Tc31,
    Kind::Df20(Reg::B20), Kind::Df21(Reg::B50), Kind::Df20(Reg::B60),
];

fn gen(rng: &mut Rng, idx: u64, tier: Tier) -> Case {
    let d = *rng.pick(&[5i64, 60, 600]);
    let mut args = vec![format!("--delete-after={}", d)];
    if rng.chance(0.5) { args.push("--use-update-method".into()); }
    if rng.chance(0.5) { args.push("--relaxed".into()); }
    gen::add_neutral_options(rng, &mut args, true, true);
    let mut lines: Vec<(i64, Vec<u8>, String)> = vec![];
    if idx % 3 == 0 {
        // dense enumeration of short histories
        let addrs = gen::addresses(rng, 2);
        let mut acs: Vec<gen::Ac> = addrs.iter().map(|&a| gen::aircraft(rng, a)).collect();
        for a in acs.iter_mut() { a.ca = 5; }
        let mut e = idx / 3;
        let len = 2 + (e % 3) as usize;
        e /= 3;
        let nl = (ALPHA.len() * 4) as u64;
        for _ in 0..len {
            let letter = (e % nl) as usize;
            e /= nl;
            let kind = ALPHA[letter / 4];
            let (ai, valid) = ((letter / 2) % 2, letter % 2 == 0);
            let f = if valid { gen::frame(rng, &mut acs[ai], kind, true) } else { invalid_variant(rng, &mut acs[ai], kind) };
            let dt = *rng.pick(&[0i64, 0, 1_000_000, 11_000_000]);
            lines.push((dt, gen::line_of(rng, &f, false), format!("{:?}{}", kind, if valid { "" } else { "-novalue" }).to_lowercase()));
        }
    } else {
        let n_ac = rng.range(1, 4) as usize;
        let addrs = gen::addresses(rng, n_ac);
        let mut acs: Vec<gen::Ac> = addrs.iter().map(|&a| gen::aircraft(rng, a)).collect();
        let twins = acs.len() > 1 && rng.chance(0.3); // two aircraft sharing callsign and squawk
        if twins { acs[1].callsign = acs[0].callsign.clone(); acs[1].sq = acs[0].sq; }
        let n = if tier == Tier::Thorough && rng.chance(0.05) { rng.range(80, 300) } else { rng.range(3, 60) } as usize;
        for _ in 0..n {
            let a = rng.below(n_ac as u64) as usize;
            // parameters change over time so that "latest" is distinguishable from "earlier"
            if rng.chance(0.3) { acs[a].alt_n = rng.range(41, 1800) as u64; }
            if rng.chance(0.2) { acs[a].sq = [rng.below(8), rng.below(8), rng.below(8), rng.below(8)]; }
            if rng.chance(0.2) && !twins { acs[a].callsign = gen::callsign(rng); }
            if rng.chance(0.1) { acs[a].ca = rng.below(8); }
            if n_ac > 1 && rng.chance(0.04) {
                // a resolution advisory of this aircraft naming another tracked aircraft as the intruder
                let other = acs[(a + 1) % n_ac].icao;
                let f = gen::acas_ra_frame(rng, &acs[a], other);
                lines.push((gen::gap_us(rng, d).min(3_000_000), gen::line_of(rng, &f, false), "acas-ra-names-other".into()));
                continue;
            }
            if rng.chance(0.01) {
                // a burst: dozens of frames of one aircraft within a second, values changing from frame to frame
                let mut t_left = 1_000_000i64;
                for _ in 0..rng.range(30, 120) {
                    acs[a].alt_n = rng.range(41, 1800) as u64;
                    let kind = *rng.pick(&[Kind::Df4, Kind::AirPos, Kind::Vel12, Kind::Ident, Kind::Df5, Kind::Df11]);
                    if matches!(kind, Kind::Ident) && !twins { acs[a].callsign = gen::callsign(rng); }
                    if matches!(kind, Kind::Df5) { acs[a].sq = [rng.below(8), rng.below(8), rng.below(8), rng.below(8)]; }
                    let f = gen::frame(rng, &mut acs[a], kind, true);
                    let dt = rng.range(0, 20_000).min(t_left);
                    t_left -= dt;
                    lines.push((dt, gen::line_of(rng, &f, false), format!("{:?}:burst", kind).to_lowercase()));
                }
            }
            let kind = if rng.chance(0.1) { Kind::Df18 } else { *rng.pick(gen::COMMON_KINDS) };
            let vflag = rng.chance(0.7);
            let f = if rng.chance(0.8) { gen::frame(rng, &mut acs[a], kind, vflag) } else { invalid_variant(rng, &mut acs[a], kind) };
            let dt = gen::gap_us(rng, d).min(if rng.chance(0.1) { 3 * d * 1_000_000 } else { 12_000_000 });
            let line = gen::line_of(rng, &f, false);
            lines.push((dt, line.clone(), format!("{:?}", kind).to_lowercase()));
            if rng.chance(0.12) { lines.push((0, line.clone(), format!("{:?}:duplicate", kind).to_lowercase())); }
            if rng.chance(0.04) { lines.push((rng.range(1, 3_000_000), line, format!("{:?}:duplicate-delayed", kind).to_lowercase())); }
        }
    }
    gen::long_uptime(rng, &mut lines, 0.03);
    gen::near_time_boundary(rng, &mut lines, 0.02);
    let ch = if rng.chance(0.15) { Chunking::Pieces } else { Chunking::Line };
    let ops = gen::ops_of(rng, lines, ch);
    let mut script = Script::file(args, ops);
    script.tcp = rng.chance(0.15);
    Case { property: "C11".into(), mode: if idx % 3 == 0 { "enumerated".into() } else { "random".into() }, script, args_b: None, log_level_b: None, meta: serde_json::Value::Null }
}

/// The "carrier without a valid value" variant of a frame kind.
fn invalid_variant(rng: &mut Rng, ac: &mut gen::Ac, kind: Kind) -> Vec<u8> {
    match kind {
        Kind::Df4 => modes::df4_5(4, ac.icao, rng.below(8), rng.below(32), rng.below(64), 0),
        Kind::Df20(r) => { let mb = gen::mb_of(rng, ac, r); modes::df20_21(20, ac.icao, rng.below(8), 0, 0, 0, mb) }
        Kind::AirPos => {
            let odd = rng.chance(0.5);
            let (la, lo) = modes::cpr_encode(ac.lat, ac.lon, odd);
            modes::df17_18(17, ac.icao, ac.ca, modes::me_airborne_pos(rng.range(9, 18) as u64, rng.below(4), 0, 0, 0, odd as u64, la, lo))
        }
        Kind::Vel12 => modes::df17_18(17, ac.icao, ac.ca, modes::me_velocity_gs(rng.range(1, 2) as u64, 0, rng.range(2, 900) as u64, 1, rng.range(2, 900) as u64, 0, 0, 0, 0, 0, 0)),
        Kind::Vel34 => modes::df17_18(17, ac.icao, ac.ca, modes::me_velocity_as(rng.range(3, 4) as u64, 0, 0, 0, 0, 0, 0, 0, 0, 0, 0)),
        Kind::Ident => modes::df17_18(17, ac.icao, ac.ca, modes::me_ident(rng.range(1, 4) as u64, rng.below(8), 0)),
        k => gen::frame(rng, ac, k, false),
    }
}

#[derive(Clone, Debug, PartialEq)]
enum Val { U(Option<u32>), I(Option<i32>), S(Option<String>), C(char), Caps(u32, [bool; 5]), Cat(u32, u32) }

struct Param {
    name: &'static str,
    get: fn(&Row) -> Val,
}

const PARAMS: &[Param] = &[
    Param { name: "altitude", get: |r| Val::U(r.altitude) },
    Param { name: "squawk", get: |r| Val::U(r.squawk) },
    Param { name: "callsign", get: |r| Val::S(norm_ais(&r.ais)) },
    Param { name: "ground speed", get: |r| Val::U(r.grspeed) },
    Param { name: "track", get: |r| Val::U(r.track) },
    Param { name: "vertical rate", get: |r| Val::I(r.vrate) },
    Param { name: "heading", get: |r| Val::U(r.heading) },
    Param { name: "GNSS altitude", get: |r| Val::U(r.altitude_gnss) },
    Param { name: "emitter category", get: |r| Val::Cat(r.category.0, r.category.1) },
    Param { name: "surveillance status", get: |r| Val::C(r.surveillance_status) },
    Param { name: "ADS-B version", get: |r| Val::U(r.adsb_version) },
    Param { name: "capability (CA)", get: |r| Val::U(Some(r.ca)) },
    Param { name: "capability (BDS 1,7 report)", get: |r| Val::Caps(r.cap_flags, r.cap_bds) },
];

fn blank(name: &str) -> Val {
    match name {
        "callsign" => Val::S(None),
        "vertical rate" => Val::I(None),
        "surveillance status" => Val::C(' '),
        "capability (CA)" => Val::U(Some(0)),
        "capability (BDS 1,7 report)" => Val::Caps(0, [false; 5]),
        "emitter category" => Val::Cat(0, 0),
        _ => Val::U(None),
    }
}

enum Role {
    /// Carrier with a valid value: the row must show it.
    Must(Val),
    /// Carrier without a valid value: blank or previous.
    NoValue,
    /// Physically carries the parameter but is not in the statement's list (or is gated by C10): old or this value.
    May(Option<Val>),
    /// Does not carry the parameter: must not change it.
    Not,
    /// Comm-B derived and capability-gated without -R: which register a reply is taken for depends on
    /// what the aircraft announced earlier - that is C10's subject, not judged here.
    Any,
}

fn role(p: &str, c: &Carried, frame: &[u8], relaxed: bool, row_altitude: Option<u32>) -> Role {
    let df = c.df;
    let es = df == 17;
    let opt_u = |v: Option<u32>| match v { Some(x) => Role::Must(Val::U(Some(x))), None => Role::NoValue };
    // Comm-B derived values are gated by capability state (C10): judged only under -R
    let mb = |v: Option<Val>| -> Role { if relaxed { match v { Some(x) => Role::Must(x), None => Role::Not } } else { Role::May(v) } };
    if (df == 20 || df == 21) && !relaxed && matches!(p, "callsign" | "ground speed" | "track" | "vertical rate" | "heading" | "capability (BDS 1,7 report)") {
        return Role::Any;
    }
    match p {
        "altitude" => match df {
            4 | 20 => opt_u(c.altitude),
            17 if (9..=18).contains(&c.tc) => opt_u(c.altitude),
            17 if (5..=8).contains(&c.tc) => Role::Must(Val::U(None)),
            0 | 16 => Role::May(None),
            _ => Role::Not,
        },
        "squawk" => match df {
            5 => opt_u(c.squawk),
            21 => Role::Must(Val::U(Some(modes::squawk_of_id13(modes::get_bits(frame, 20, 32))))),
            _ => Role::Not,
        },
        "callsign" => match df {
            17 if (1..=4).contains(&c.tc) => match norm_ais(&c.ais) { Some(s) => Role::Must(Val::S(Some(s))), None => Role::NoValue },
            20 | 21 if c.reg == 20 => match norm_ais(&c.ais) { Some(s) => mb(Some(Val::S(Some(s)))), None => Role::May(None) },
            _ => Role::Not,
        },
        "ground speed" => match df {
            17 if c.tc == 19 && (c.st == 1 || c.st == 2) => opt_u(c.grspeed),
            20 | 21 if c.reg == 50 => mb(c.grspeed.map(|x| Val::U(Some(x)))),
            _ => Role::Not,
        },
        "track" => match df {
            17 if c.tc == 19 && (c.st == 1 || c.st == 2) => opt_u(c.track),
            17 if (5..=8).contains(&c.tc) => Role::May(Some(Val::U(c.track))),
            20 | 21 if c.reg == 50 => mb(c.track.map(|x| Val::U(Some(x)))),
            _ => Role::Not,
        },
        "vertical rate" => match df {
            17 if c.tc == 19 => match c.vrate { Some(x) => Role::Must(Val::I(Some(x))), None => Role::NoValue },
            20 | 21 if c.reg == 60 => if relaxed { match c.vrate { Some(x) => Role::Must(Val::I(Some(x))), None => Role::May(None) } } else { Role::May(c.vrate.map(|x| Val::I(Some(x)))) },
            _ => Role::Not,
        },
        "heading" => match df {
            17 if c.tc == 19 && (c.st == 3 || c.st == 4) => opt_u(c.heading),
            20 | 21 if c.reg == 60 => if relaxed { match c.heading { Some(x) => Role::Must(Val::U(Some(x))), None => Role::May(None) } } else { Role::May(c.heading.map(|x| Val::U(Some(x)))) },
            _ => Role::Not,
        },
        // TC19 carries the difference to the barometric altitude the row shows; TC20-22 carry the height itself
        "GNSS altitude" => match df {
            17 if c.tc == 19 => match (c.altitude_delta, row_altitude) { (Some(dlt), Some(alt)) => Role::Must(Val::U(Some((alt as i32 + dlt) as u32))), _ => Role::NoValue },
            17 if (20..=22).contains(&c.tc) => opt_u(c.altitude_gnss),
            _ => Role::Not,
        },
        // carried by identification squitters only (type code = category set, next three bits = category)
        "emitter category" => match df {
            17 if (1..=4).contains(&c.tc) => Role::Must(Val::Cat(c.tc, c.st)),
            _ => Role::Not,
        },
        "surveillance status" => match df {
            17 if (9..=18).contains(&c.tc) || (20..=22).contains(&c.tc) => match c.ss { Some(x) => Role::Must(Val::C(x)), None => Role::NoValue },
            _ => Role::Not,
        },
        "ADS-B version" => match df {
            17 if c.tc == 31 => opt_u(c.version),
            _ => Role::Not,
        },
        "capability (CA)" => match df {
            11 => match c.ca { Some(x) => Role::Must(Val::U(Some(x))), None => Role::NoValue },
            17 => Role::May(c.ca.map(|x| Val::U(Some(x)))),
            _ => Role::Not,
        },
        "capability (BDS 1,7 report)" => match df {
            20 | 21 if c.reg == 17 => match c.caps { Some((f, b)) => mb(Some(Val::Caps(f, b))), None => Role::Not },
            _ => Role::Not,
        },
        _ => { let _ = es; Role::Not }
    }
}

fn check(case: &Case, st: &mut Stats) -> Vec<Violation> {
    let h = exec::run(&case.script);
    st.observe(case, &h);
    if let Outcome::Panic(_) | Outcome::Wedge(_) = h.outcome { st.discarded_by_crash += 1; return vec![]; }
    let mut v = vec![];
    let d = case.script.delete_after();
    let relaxed = case.script.has_arg("--relaxed");
    let uflag = case.script.has_arg("--use-update-method");
    let empty: Arc<Snapshot> = Arc::new(Snapshot::new());
    let mut model = Expiry::new(d);
    let mut carrier_hits: std::collections::BTreeMap<(u32, &'static str), u32> = Default::default();
    'steps: for (i, s) in h.steps.iter().enumerate() {
        let before = if i == 0 { &empty } else { &h.steps[i - 1].after };
        st.state(abstract_state(&s.after, s.t_us, d, &format!("{}{}", uflag as u8, relaxed as u8), s.tag.split(':').next().unwrap_or("")));
        if s.lines.len() != 1 { continue; }
        let l = &s.lines[0];
        let c = refm::classify(l);
        if !c.accepted || !c.judged { continue; }
        let a = c.addr.unwrap();
        model.accept(a, s.t_us);
        let Some(mut car) = carried(l) else { continue };
        let frame = c.frame.as_ref().unwrap();
        // plain 25-ft altitude codes are decoded independently (C05's formula): the carried value, and in
        // particular "no valid value" for codes below 0 ft, does not rest on the decoder's own word there
        let indep = match c.df {
            4 | 20 => modes::alt_of_ac13_q1(modes::get_bits(frame, 20, 32)),
            17 if (9..=18).contains(&car.tc) => modes::alt_of_ac12_q1(modes::get_bits(frame, 41, 52)),
            _ => None,
        };
        if let Some(a) = indep { if car.altitude != a { st.probe("altitude_decoder_disagrees_with_reference"); } car.altitude = a; }
        // callsigns are decoded independently as well (eight 6-bit characters, blanks and unassigned codes dropped)
        if (c.df == 17 && (1..=4).contains(&car.tc)) || (matches!(c.df, 20 | 21) && car.reg == 20) {
            let cs = ehs::callsign20(modes::get_bits(frame, 33, 88));
            if car.ais.clone().unwrap_or_default() != cs { st.probe("callsign_decoder_disagrees_with_reference"); }
            car.ais = Some(cs);
        }
        st.oracle_evals += 1;
        // other aircraft: nothing changes (expired rows may go)
        for (k, rb) in before.iter() {
            if *k == a { continue; }
            match s.after.get(k) {
                Some(ra) if ra != rb => {
                    v.push(viol("C11.cross-talk", i, format!("a DF{} frame of {:06X} changed the row of {:06X}: {}", c.df, a, k, diff_fields(rb, ra).join("; ")), json!({"df": c.df})));
                    break 'steps;
                }
                None if !model.is_stale(*k, s.t_us) => {
                    v.push(viol("C11.cross-talk", i, format!("a DF{} frame of {:06X} removed the live row of {:06X}", c.df, a, k), json!({"df": c.df, "removed": true})));
                    break 'steps;
                }
                _ => {}
            }
        }
        let Some(new) = s.after.get(&a) else { continue };
        let prev = before.get(&a);
        // DF18 carriers are not in the statement's list: its own row is judged only for the parameters a
        // DF18 frame certainly does not carry (squawk, transponder capability, BDS 1,7 report)
        let df18 = c.df == 18;
        let creating = prev.is_none();
        // idempotence: the same frame delivered again at the same clock to a row that already existed
        if i >= 1 && !creating && !df18 && h.steps[i - 1].lines.len() == 1 && h.steps[i - 1].lines[0] == *l && h.steps[i - 1].t_us == s.t_us {
            let existed_before_first = if i >= 2 { h.steps[i - 2].after.contains_key(&a) } else { false };
            if existed_before_first {
                st.probe("duplicate_immediately");
                if Some(new) != prev {
                    v.push(viol("C11.not-idempotent", i, format!("re-feeding DF{} frame {} to the existing row {:06X} changed it: {}", c.df, crate::script::escape(l), a, diff_fields(prev.unwrap(), new).join("; ")), json!({"df": c.df, "tc": car.tc})));
                    break 'steps;
                }
            }
        }
        // TC19 subtype 1/2: ground speed and track are also derived independently from the two velocity
        // components (tolerance one unit of the subtype's resolution and one degree: the rounding is not specified)
        if c.df == 17 && car.tc == 19 && (car.st == 1 || car.st == 2) {
            let (dew, vew, dns, vns) = (modes::get_bits(frame, 46, 46), modes::get_bits(frame, 47, 56) as f64, modes::get_bits(frame, 57, 57), modes::get_bits(frame, 58, 67) as f64);
            if vew >= 1.0 && vns >= 1.0 {
                let k = if car.st == 2 { 4.0 } else { 1.0 };
                let vx = (vew - 1.0) * if dew == 1 { -1.0 } else { 1.0 };
                let vy = (vns - 1.0) * if dns == 1 { -1.0 } else { 1.0 };
                let gs = (vx * vx + vy * vy).sqrt() * k;
                let trk = (vx.atan2(vy).to_degrees() + 360.0) % 360.0;
                st.probe("tc19_velocity_checked_independently");
                if vew > 512.0 || vns > 512.0 { st.probe("tc19_component_above_511"); }
                let gs_ok = new.grspeed.map(|g| (g as f64 - gs).abs() <= k + 1e-6).unwrap_or(false);
                let trk_ok = gs < 1.0 || new.track.map(|t| { let dd = (t as f64 - trk).abs(); dd.min(360.0 - dd) <= 1.0 + 1e-6 }).unwrap_or(false);
                if !gs_ok || !trk_ok {
                    v.push(viol("C11.not-latest", i, format!("{:06X}: TC19 subtype {} carries velocity components ({:+.0}, {:+.0}) x{} kt = ground speed {:.1} kt, track {:.1} deg; the row shows {:?} kt / {:?} deg", a, car.st, vx, vy, k, gs, trk, new.grspeed, new.track), json!({"param": "ground speed", "independent": true, "df": 17, "tc": 19, "st": car.st, "use_update_method": uflag})));
                    break 'steps;
                }
            }
        }
        for p in PARAMS {
            if df18 && !matches!(p.name, "squawk" | "capability (CA)" | "capability (BDS 1,7 report)") { continue; }
            let now = (p.get)(new);
            let old = prev.map(|r| (p.get)(r)).unwrap_or_else(|| blank(p.name));
            let r = role(p.name, &car, frame, relaxed, new.altitude);
            let w = json!({"param": p.name, "df": c.df, "tc": car.tc, "st": car.st, "reg": car.reg, "use_update_method": uflag, "creating": creating});
            match r {
                Role::Must(val) => {
                    *carrier_hits.entry((a, p.name)).or_insert(0) += 1;
                    if creating && (c.df == 20 || c.df == 21) {
                        if now != val && now != blank(p.name) {
                            v.push(viol("C11.not-latest", i, format!("{:06X}: row-creating DF{} frame carries {} = {:?}, row shows {:?}", a, c.df, p.name, val, now), w));
                            break 'steps;
                        }
                    } else if now != val {
                        v.push(viol("C11.not-latest", i, format!("{:06X}: latest carrier (DF{} TC{} ST{} reg{}) of {} carries {:?} but the row shows {:?} (before: {:?}){}", a, c.df, car.tc, car.st, car.reg, p.name, val, now, old, if uflag { " [-U]" } else { "" }), w));
                        break 'steps;
                    }
                }
                Role::NoValue => {
                    *carrier_hits.entry((a, p.name)).or_insert(0) += 1;
                    st.probe("carrier_without_value");
                    if now != old && now != blank(p.name) {
                        v.push(viol("C11.invalid-garbage", i, format!("{:06X}: DF{} TC{} carries no valid {} but the row went from {:?} to {:?}", a, c.df, car.tc, p.name, old, now), w));
                        break 'steps;
                    }
                }
                Role::May(val) => {
                    if now != old && Some(&now) != val.as_ref() && now != blank(p.name) {
                        v.push(viol("C11.non-carrier-change", i, format!("{:06X}: DF{} TC{} reg{} may leave {} alone or set it to {:?}, but the row went from {:?} to {:?}", a, c.df, car.tc, car.reg, p.name, val, old, now), w));
                        break 'steps;
                    }
                }
                Role::Any => {}
                Role::Not => {
                    if now != old {
                        v.push(viol("C11.non-carrier-change", i, format!("{:06X}: a DF{} TC{} ST{} reg{} frame does not carry {} but the row went from {:?} to {:?}", a, c.df, car.tc, car.st, car.reg, p.name, old, now), w));
                        break 'steps;
                    }
                }
            }
        }
    }
    if carrier_hits.values().any(|&n| n >= 2) {
        st.nontrivial_runs += 1;
        if st.scripts.len() < crate::stats::MAX_SET { st.scripts.insert(fnv(serde_json::to_string(&case.script).unwrap().as_bytes())); }
    }
    v
}
