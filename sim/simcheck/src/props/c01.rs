//! C01 - no input line or option set can crash or wedge the decoder.
use super::{viol, Prop, Tier};
use crate::exec::{self, Outcome};
use crate::gen::{self, Chunking, Kind};
use crate::modes;
use crate::refm;
use crate::rng::Rng;
use crate::script::{Bytes, Case, Conn, Op, Script, Violation};
use crate::stats::{abstract_state, Stats};
use serde_json::json;

pub fn prop() -> Prop {
    Prop {
        id: "C01",
        gen,
        check,
        quick_runs: 24_000,
        both_profiles: true,
        rule: "a run = one hostile line stream (1-3 addresses; edge-valued frames of every DF, wrong-length frames, junk, corrupted frames) fed through a file or TCP script with random chunking under a random option vector (observer strings incl. nan / inf / 1e400 / subnormal, which the program's parser accepts); every 12 000th run index is a single-format stream of 215 000-335 000 frames with -c; non-trivial = at least one well-formed frame was applied and at least one hostile line was processed; distinct = distinct abstract table states (populated-parameter bitmap, CA class, CPR slots, age buckets, option class, last event kind)",
        level_text: "seeded exploration of hostile line histories x option vectors x feed faults in two build profiles; oracle: no panic / no wedge / file source returns Ok at EOF / sentinel frame after hostile input is applied",
    }
}

const I64_EDGE: &[i64] = &[-1, 0, 1, 3, 60, 1_000_000_000, -1_000_000_000, i64::MAX, i64::MIN, i64::MAX / 1000, i64::MIN / 1000, i64::MAX / 1000 + 1];

/// Random option vector over everything the property names.
pub fn options(rng: &mut Rng, extreme: bool) -> Vec<String> {
    let mut a: Vec<String> = vec![];
    if rng.chance(0.4) { a.push("--use-update-method".into()); }
    if rng.chance(0.4) { a.push("--relaxed".into()); }
    if rng.chance(0.5) { a.push("--count-df".into()); }
    if rng.chance(0.3) {
        let n = rng.range(1, 4);
        for _ in 0..n {
            let df = if rng.chance(0.8) { *rng.pick(&[0u32, 4, 5, 11, 16, 17, 18, 20, 21]) } else { rng.below(40) as u32 };
            a.push(format!("--filter={}", df));
        }
    }
    if rng.chance(0.6) {
        let letters = b"aAewsQxz";
        let n = rng.range(0, 6);
        let s: String = (0..n).map(|_| *rng.pick(letters) as char).collect();
        // 'Q' silences every refresh; keep it in a minority of runs
        let s = if rng.chance(0.8) { s.replace('Q', "") } else { s };
        a.push(format!("--display-info={}", s));
    }
    if rng.chance(0.6) {
        let letters = b"saAvVNSWEdDcCxq ";
        let n = rng.range(0, 5);
        let s: String = (0..n).map(|_| *rng.pick(letters) as char).collect();
        a.push(format!("--order-by={}", s));
    }
    if rng.chance(0.7) {
        let d = if extreme && rng.chance(0.3) { *rng.pick(I64_EDGE) } else { *rng.pick(&[1i64, 5, 60, 600]) };
        a.push(format!("--delete-after={}", d));
    }
    if rng.chance(0.8) {
        let u = if extreme && rng.chance(0.3) { *rng.pick(I64_EDGE) } else { *rng.pick(&[-1i64, -1, 0, 1, 3]) };
        a.push(format!("--update={}", u));
    }
    if rng.chance(0.3) {
        a.push(format!("--observer-coord={}", rng.pick(&["52.0,-8.0", " 52.66 , -8.62 ", "0,0", "-89.9,179.9", "nonsense", "1,2,3", "91,181", "", "nan,nan", "NaN,0", "inf,-inf", "0,infinity", "1e400,-1e400", "1e-320,0"])));
    }
    if rng.chance(0.15) { a.push("--downlink-log=/dev/null".into()); }
    if rng.chance(0.2) { a.push(format!("--log-messages={}", rng.pick(&[17u32, 4, 20, 11, 0]))); }
    if rng.chance(0.1) { a.push(format!("--error-log={}", rng.pick(&["/dev/null", "/dev/full"]))); }
    a
}

fn edge_bits(rng: &mut Rng, n: u32) -> u64 {
    let all = if n >= 64 { u64::MAX } else { (1u64 << n) - 1 };
    match rng.below(7) {
        0 => 0,
        1 => all,
        2 => 1u64 << rng.below(n as u64),
        3 => all ^ (1u64 << rng.below(n as u64)),
        4 => 1,
        _ => rng.bits(n),
    }
}

/// A frame of any DF 0..31 whose body is pushed to edge values; parity correct,
/// attributed to `icao` where the format allows.
pub fn edge_frame(rng: &mut Rng, icao: u32) -> Vec<u8> {
    let df = rng.below(32);
    let long = df >= 16;
    let body = if long { ((edge_bits(rng, 19) as u128) << 64) | edge_bits(rng, 64) as u128 } else { edge_bits(rng, 27) as u128 };
    let mut f = modes::raw_frame(df, long, body, 0);
    if matches!(df, 11 | 17 | 18) || !matches!(df, 0 | 4 | 5 | 16 | 20 | 21) {
        modes::set_bits(&mut f, 9, 32, icao as u64);
    }
    if long && rng.chance(0.7) {
        // choose the type code / BDS byte deliberately
        let tc = rng.below(32);
        modes::set_bits(&mut f, 33, 37, tc);
        if rng.chance(0.5) {
            // the interesting sub-fields of ME pushed to edges one at a time
            match rng.below(6) {
                0 => modes::set_bits(&mut f, 70, 78, *rng.pick(&[0u64, 1, 2, 511])), // vertical rate
                1 => modes::set_bits(&mut f, 41, 52, *rng.pick(&[0u64, 0x10, 0x11, 0xFFF, 0x01F])), // AC12
                2 => { modes::set_bits(&mut f, 55, 71, *rng.pick(&[0u64, 1, 131071])); modes::set_bits(&mut f, 72, 88, *rng.pick(&[0u64, 1, 131071])); }
                3 => { modes::set_bits(&mut f, 47, 56, *rng.pick(&[0u64, 1, 1023])); modes::set_bits(&mut f, 58, 67, *rng.pick(&[0u64, 1, 1023])); }
                4 => modes::set_bits(&mut f, 82, 88, *rng.pick(&[0u64, 1, 127])),
                _ => modes::set_bits(&mut f, 38, 40, rng.below(8)),
            }
        }
    }
    if rng.chance(0.5) {
        // altitude / identity field edges (bits 20-32)
        let v = *rng.pick(&[0u64, 0x0010, 0x0011, 0x1FFF, 0x0050, 0x0040, 0x1FEF, 0x0001]);
        modes::set_bits(&mut f, 20, 32, if rng.chance(0.5) { v } else { modes::ac13_q1(rng.below(45)) });
    }
    let overlay = if matches!(df, 0 | 4 | 5 | 16 | 20 | 21) { icao } else { 0 };
    modes::seal(&mut f, overlay);
    f
}

/// One hostile (or ordinary) line; returns (bytes incl. newline, tag).
pub fn hostile_line(rng: &mut Rng, acs: &mut [gen::Ac]) -> (Vec<u8>, String) {
    let i = rng.below(acs.len() as u64) as usize;
    match rng.below(20) {
        0..=5 => {
            let k = *rng.pick(gen::ALL_KINDS);
            let f = gen::frame(rng, &mut acs[i], k, false);
            let mut line = gen::line_of(rng, &f, true);
            if rng.chance(0.2) {
                // a frame wrapped in a long run of non-hex noise (multi-byte and undecodable bytes included):
                // still that frame, but the line is long and not valid UTF-8
                let noise = |rng: &mut Rng| -> Vec<u8> {
                    let n = rng.range(1, 120);
                    let mut v = vec![];
                    for _ in 0..n {
                        match rng.below(6) {
                            0 => v.extend("\u{2708}".as_bytes()),
                            1 => v.push(rng.range(0x80, 0xFF) as u8),
                            2 => v.extend("\u{fc}".as_bytes()),
                            3 => v.push(*rng.pick(&[b' ', b'-', b'_', b'|', b'~', b'#'])),
                            _ => v.push(*rng.pick(b"ghijklmnopqrstuvwxyzGHIJKLMNOPQRSTUVWXYZ")),
                        }
                    }
                    v
                };
                let mut w = noise(rng);
                w.extend_from_slice(&line[..line.len() - 1]);
                w.extend(noise(rng));
                w.retain(|&c| c != b'\n');
                w.push(b'\n');
                line = w;
            }
            (line, format!("{:?}", k).to_lowercase())
        }
        6..=10 => {
            let f = edge_frame(rng, acs[i].icao);
            { let deco = rng.chance(0.5); (gen::line_of(rng, &f, deco), "edge".into()) }
        }
        11 | 12 => {
            // wrong length for the DF it announces
            let icao = acs[i].icao;
            let (hex, tag) = match rng.below(4) {
                0 => { let k = *rng.pick(&[Kind::AirPos, Kind::Ident, Kind::Df20(gen::Reg::B20), Kind::Df16, Kind::Df18, Kind::Vel12]); let f = gen::frame(rng, &mut acs[i], k, false); (modes::to_hex(&f)[..14].to_string(), "long-df-in-14-digits") }
                1 => { let f = edge_frame(rng, icao); let h = modes::to_hex(&f); (if h.len() == 28 { h[..14].to_string() } else { format!("{}{}", h, &h) }, "len-df-mismatch") }
                2 => { let k = *rng.pick(&[Kind::Df0, Kind::Df4, Kind::Df5, Kind::Df11]); let f = gen::frame(rng, &mut acs[i], k, false); (format!("{}{:014X}", modes::to_hex(&f), rng.bits(56)), "short-df-in-28-digits") }
                _ => { let f = edge_frame(rng, icao); let h = modes::to_hex(&f); let pre = format!("{:012X}", rng.bits(48)); (if h.len() == 28 { format!("{}{}", pre, &h[..14]) } else { format!("{}{}{}", pre, h, &h) }, "len-df-mismatch-ts") }
            };
            (format!("{}\n", hex).into_bytes(), tag.into())
        }
        13 | 14 => {
            // corrupted frame
            let k = *rng.pick(gen::ALL_KINDS);
            let mut f = gen::frame(rng, &mut acs[i], k, false);
            let nb = f.len() * 8;
            for _ in 0..rng.range(1, 6) { modes::flip_bit(&mut f, rng.range(1, nb as i64) as usize); }
            (gen::line_of(rng, &f, true), "bitflip".into())
        }
        _ => {
            let k = *rng.pick(gen::JUNK_KINDS);
            (gen::junk(rng, k), format!("junk-{}", k))
        }
    }
}

pub fn sentinel_frame(script_filter: &Option<Vec<u32>>, icao: u32, rng: &mut Rng) -> Option<Vec<u8>> {
    let mut ac = gen::aircraft(rng, icao);
    let kind = match script_filter {
        None => Kind::Df11,
        Some(v) if v.contains(&11) => Kind::Df11,
        Some(v) if v.contains(&17) => Kind::Ident,
        Some(v) if v.contains(&4) => Kind::Df4,
        Some(v) if v.contains(&5) => Kind::Df5,
        Some(v) if v.contains(&0) => Kind::Df0,
        _ => return None,
    };
    Some(gen::frame(rng, &mut ac, kind, true))
}

fn gen(rng: &mut Rng, idx: u64, tier: Tier) -> Case {
    if idx % 12_000 == 11 {
        // one very long single-format stream: per-format frame counts of a few hundred thousand (products and
        // percentages of such counts leave 32 bits); the display is refreshed at the end
        let addrs = gen::addresses(rng, 2);
        let mut acs: Vec<gen::Ac> = addrs.iter().map(|&a| gen::aircraft(rng, a)).collect();
        let kind = *rng.pick(&[Kind::Df11, Kind::AirPos, Kind::Df4]);
        let total = 215_000 + rng.range(0, 120_000) as usize;
        let mut ops = vec![];
        let mut left = total;
        while left > 0 { let k = left.min(4096); ops.push(Op::Data { dt_us: 0, bytes: Bytes(gen::blob_of(rng, &mut acs, k, kind)), tag: "huge-count".into() }); left -= k; }
        for _ in 0..3 { ops.push(Op::Data { dt_us: 2_000_000, bytes: Bytes(gen::blob_of(rng, &mut acs, 1, kind)), tag: "huge-count-tail".into() }); }
        let mut args = vec!["--delete-after=600".to_string(), "--count-df".into(), "--update=0".into()];
        if rng.chance(0.5) { args.push("--use-update-method".into()); }
        let script = Script::file(args, ops);
        return Case { property: "C01".into(), mode: "huge-count".into(), script, args_b: None, log_level_b: None, meta: serde_json::Value::Null };
    }
    let n_ac = rng.range(1, 3) as usize;
    let addrs = gen::addresses(rng, n_ac + 1);
    let sentinel_addr = addrs[n_ac];
    let mut acs: Vec<gen::Ac> = addrs[..n_ac].iter().map(|&a| gen::aircraft(rng, a)).collect();
    let args = options(rng, true);
    let mut script = Script::file(args, vec![]);
    let d = script.delete_after().clamp(1, 600);
    script.log_level = rng.pick(&["off", "off", "error", "info", "debug", "trace"]).to_string();
    script.tcp = rng.chance(0.35);
    if rng.chance(0.15) { script.tick_us = *rng.pick(&[1i64, 1, 1000, 400_000]); }
    let n_lines = if tier == Tier::Thorough && rng.chance(0.02) { rng.range(200, 1500) } else if rng.chance(0.7) { rng.range(3, 40) } else { rng.range(40, 200) } as usize;
    let ch = *rng.pick(&[Chunking::Line, Chunking::Line, Chunking::Pieces, Chunking::Multi]);
    let mut lines: Vec<(i64, Vec<u8>, String)> = vec![];
    for _ in 0..n_lines {
        let (b, tag) = hostile_line(rng, &mut acs);
        let mut dt = gen::gap_us(rng, d);
        if rng.chance(0.02) { dt = -rng.range(1, 20_000_000); } // clock jumps back
        lines.push((dt, b, tag));
    }
    let filter = script.filter();
    let sent = sentinel_frame(&filter, sentinel_addr, rng);
    if let Some(f) = &sent {
        let mut b = modes::to_hex(f).into_bytes();
        b.push(b'\n');
        lines.push((rng.range(0, 2_000_000), b, "sentinel".into()));
    }
    // final line cut at an arbitrary offset, no newline (file: EOF mid-line; TCP: peer closes mid-line)
    let mut tail: Option<Vec<u8>> = None;
    if rng.chance(0.5) {
        let k = *rng.pick(&[Kind::AirPos, Kind::Ident, Kind::Df20(gen::Reg::B50), Kind::Df4, Kind::Vel12]);
        let f = gen::frame(rng, &mut acs[0], k, false);
        let h = modes::to_hex(&f).into_bytes();
        let cut = if rng.chance(0.3) { 14.min(h.len()) } else { rng.range(1, h.len() as i64) as usize };
        tail = Some(h[..cut].to_vec());
    }
    if script.tcp {
        // split the lines over several connections with the property's fault alphabet in between
        let mut conns: Vec<Conn> = vec![];
        let n_conn = rng.range(1, 4) as usize;
        let per = (lines.len() / n_conn).max(1);
        let mut it = lines.into_iter().peekable();
        for c in 0..n_conn {
            while rng.chance(0.25) { conns.push(Conn::Refuse { kind: rng.pick(&["ConnectionRefused", "TimedOut", "HostUnreachable"]).to_string(), dt_us: 0 }); }
            let last = c + 1 == n_conn;
            let mut part = vec![];
            while let Some(_) = it.peek() {
                if !last && part.len() >= per { break; }
                part.push(it.next().unwrap());
            }
            let mut ops = gen::ops_of(rng, part, ch);
            if rng.chance(0.2) { let at = rng.below(ops.len() as u64 + 1) as usize; ops.insert(at, Op::Err { dt_us: 0, kind: "Interrupted".into() }); }
            if !last {
                match rng.below(3) {
                    0 => ops.push(Op::Eof { dt_us: rng.range(0, 1_000_000) }),
                    1 => { ops.push(Op::Data { dt_us: 0, bytes: Bytes(b"8D4840D6202CC3".to_vec()), tag: "partial".into() }); ops.push(Op::Err { dt_us: 0, kind: rng.pick(&["ConnectionReset", "TimedOut", "BrokenPipe", "ConnectionAborted"]).to_string() }); }
                    _ => { ops.push(Op::Data { dt_us: 0, bytes: Bytes(b"8D4840D6202CC371C32CE0576098".to_vec()[..rng.range(1, 27) as usize].to_vec()), tag: "partial".into() }); ops.push(Op::Eof { dt_us: 0 }); }
                }
            } else if let Some(t) = tail.take() {
                // healthy connection may also end in a partial line followed by SimEnd; keep the sentinel before it
                ops.push(Op::Data { dt_us: 0, bytes: Bytes(t), tag: "partial".into() });
            }
            conns.push(Conn::Accept { ops });
        }
        script.conns = conns;
    } else {
        let mut ops = gen::ops_of(rng, lines, ch);
        if let Some(t) = tail { ops.push(Op::Data { dt_us: 0, bytes: Bytes(t), tag: "partial".into() }); }
        if rng.chance(0.5) { ops.push(Op::Eof { dt_us: 0 }); }
        if rng.chance(0.1) { let at = rng.below(ops.len() as u64) as usize; ops.insert(at, Op::Err { dt_us: 0, kind: "Interrupted".into() }); }
        script.conns = vec![Conn::Accept { ops }];
    }
    Case { property: "C01".into(), mode: String::new(), script, args_b: None, log_level_b: None, meta: json!({"sentinel": sent.as_ref().map(|f| modes::to_hex(f)), "sentinel_addr": sentinel_addr}) }
}

/// Classifies a panic message into a stable witness (location without line drift is not
/// available, so file + message class).
pub fn panic_witness(msg: &str) -> serde_json::Value {
    let file = msg.rsplit(" at ").next().unwrap_or("").split(':').next().unwrap_or("").trim_start_matches("/repo/").to_string();
    let class = if msg.contains("overflow") { "arithmetic-overflow" } else if msg.contains("index out of bounds") || msg.contains("out of range") { "index-out-of-bounds" } else if msg.contains("unwrap") || msg.contains("expect") { "unwrap" } else { "other" };
    json!({"file": file, "class": class})
}

fn check(case: &Case, st: &mut Stats) -> Vec<Violation> {
    let h = exec::run(&case.script);
    st.observe(case, &h);
    let mut v = vec![];
    let last = h.steps.len().saturating_sub(1);
    match &h.outcome {
        Outcome::Panic(m) => {
            let mut w = panic_witness(m);
            // the line being processed when it crashed
            if let Some(s) = h.steps.last() {
                w["last_tag"] = json!(s.tag);
                if let Some(l) = s.lines.last() { w["last_line_digits"] = json!(refm::hex_digits(l).len()); }
            }
            let upd = case.script.update();
            w["update_out_of_chrono_range"] = json!(upd > i64::MAX / 1000 || upd < -(i64::MAX / 1000));
            v.push(viol("C01.panic", last, format!("reader thread panicked: {}", m), w));
        }
        Outcome::Wedge(m) => v.push(viol("C01.wedge", last, m.clone(), json!({}))),
        Outcome::ReturnedErr(e) if !case.script.tcp => v.push(viol("C01.file-exit", last, format!("file source: reader returned Err({})", e), json!({}))),
        Outcome::FileEarly => v.push(viol("C01.file-exit", last, "file source: reader returned before end-of-file was served".into(), json!({}))),
        Outcome::ArgsRejected(_) => return v,
        _ => {}
    }
    let d = case.script.delete_after();
    let quiet = case.script.args.iter().any(|a| a.starts_with("--display-info=") && a.contains('Q'));
    let opt_class = format!("{}{}{}{}", case.script.has_arg("--use-update-method") as u8, case.script.has_arg("--relaxed") as u8, quiet as u8, case.script.tcp as u8);
    let mut applied = 0;
    let mut hostile = 0;
    for s in &h.steps {
        for l in &s.lines {
            let c = refm::classify(l);
            if c.accepted && c.judged { applied += 1; } else { hostile += 1; }
        }
        st.state(abstract_state(&s.after, s.t_us, d.clamp(1, 600), &opt_class, s.tag.split(':').next().unwrap_or("")));
        if s.out.contains("\x1b[2J") { st.probe("refresh_printed"); }
    }
    if applied > 0 && hostile > 0 {
        st.nontrivial_runs += 1;
        if st.scripts.len() < crate::stats::MAX_SET { st.scripts.insert(crate::stats::fnv(serde_json::to_string(&case.script).unwrap().as_bytes())); }
    }
    // sentinel: the well-formed frame after all the hostile input must have been applied
    if v.is_empty() {
        if let (Some(shex), Some(addr)) = (case.meta["sentinel"].as_str(), case.meta["sentinel_addr"].as_u64()) {
            // only meaningful while the script still feeds the sentinel line
            let mut needle = shex.as_bytes().to_vec();
            needle.push(b'\n');
            let fed = case.script.conns.iter().any(|c| match c {
                Conn::Accept { ops } => {
                    let all: Vec<u8> = ops.iter().flat_map(|o| if let Op::Data { bytes, .. } = o { bytes.0.clone() } else { vec![] }).collect();
                    all.windows(needle.len()).any(|w| w == &needle[..])
                }
                _ => false,
            });
            if d >= 1 && fed {
                let mut seen = false;
                for (i, s) in h.steps.iter().enumerate() {
                    if s.lines.iter().any(|l| l == shex.as_bytes()) {
                        seen = true;
                        st.oracle_evals += 1;
                        if !s.after.contains_key(&(addr as u32)) {
                            v.push(viol("C01.sentinel", i, format!("well-formed frame {} after hostile input was not applied (address {:06X} not in table)", shex, addr), json!({"outcome": format!("{:?}", h.outcome)})));
                        }
                    }
                }
                if !seen {
                    v.push(viol("C01.sentinel", last, format!("processing stopped before the final well-formed frame {} was read (outcome {:?}, {} ops unread)", shex, h.outcome, h.unread_ops), json!({"outcome": format!("{:?}", h.outcome)})));
                }
            }
        }
    }
    if h.steps.iter().any(|s| s.lines.iter().any(|l| l.len() > 65536)) { st.probe("line_over_64k"); }
    if h.steps.iter().any(|s| s.tag == "partial") { st.probe("partial_final_line"); }
    v
}
