//! Per-property workloads and oracles.
use crate::rng::Rng;
use crate::script::{Case, Violation};
use crate::stats::Stats;

pub mod c01;
pub mod c03;
pub mod c04;
pub mod c08;
pub mod c10;
pub mod c11;
pub mod c12;
pub mod c13;
pub mod c16;
pub mod c18;
pub mod c19;

#[derive(Clone, Copy, PartialEq, Eq, Debug)]
pub enum Tier {
    Quick,
    Thorough,
}

pub struct Prop {
    pub id: &'static str,
    /// Expands one PRNG stream into one case.
    pub gen: fn(&mut Rng, u64, Tier) -> Case,
    /// Executes the case (as often as the oracle needs) and judges it.
    pub check: fn(&Case, &mut Stats) -> Vec<Violation>,
    /// Runs per quick batch.
    pub quick_runs: u64,
    /// Also run under the release-like profile.
    pub both_profiles: bool,
    pub rule: &'static str,
    pub level_text: &'static str,
}

pub fn all() -> Vec<Prop> {
    vec![c01::prop(), c03::prop(), c04::prop(), c08::prop(), c10::prop(), c11::prop(), c12::prop(), c13::prop(), c16::prop(), c18::prop(), c19::prop()]
}

pub fn find(id: &str) -> Option<Prop> {
    all().into_iter().find(|p| p.id == id)
}

pub fn viol(rule: &str, step: usize, msg: String, witness: serde_json::Value) -> Violation {
    Violation { rule: rule.to_string(), msg, step, witness }
}
