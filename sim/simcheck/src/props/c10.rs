//! C10 - Comm-B data are shown only when valid, advertised and correctly decoded.
use super::{viol, Prop, Tier};
use crate::ehs;
use crate::exec::{self, Outcome};
use crate::gen::{self, Chunking, Kind, Reg};
use crate::modes::{self, *};
use crate::refm;
use crate::rng::Rng;
use crate::row::{Row, Snapshot};
use crate::script::{Case, Script, Violation};
use crate::stats::{abstract_state, fnv, Stats};
use serde_json::json;
use std::collections::BTreeMap;
use std::sync::Arc;

pub fn prop() -> Prop {
    Prop {
        id: "C10",
        gen,
        check,
        quick_runs: 24_000,
        both_profiles: false,
        rule: "a run = an interrogation dialogue of 1-3 aircraft (constant CA each, an advertised register set each) over a lossy, duplicating, reordering channel: DF11 / DF17 announcements, BDS 1,7 reports, and DF20/21 replies carrying BDS 2,0 / 3,0 / 4,0 / 5,0 / 6,0 built from physical values over their full ranges and both signs, at the plausibility limits, with exactly one status bit cleared, with one reserved bit set, random and zero MB; silences long enough for rows to expire so the gating state must reset; -R and -U on/off; in 6 % of the runs the wall clock is set back once or twice; non-trivial = at least one reply was decoded and at least one reply was (rightly) ignored; distinct = distinct scripts",
        level_text: "seeded exploration of message histories against a reference gating automaton {CA recorded, registers advertised, -R} plus an independent Doc 9871 register decoder; oracle: MB-derived fields change only when gating allows and the register is valid, take the reference values, and valid in-range registers are decoded once gating allows (both turn / climb directions)",
    }
}

fn one_status_cleared(rng: &mut Rng, reg: u32, mb: u64) -> u64 {
    // (status bit, last bit of its value field)
    let fields: &[(u32, u32)] = match reg { 40 => &[(1, 13), (14, 26), (27, 39)], 50 => &[(1, 11), (12, 23), (24, 34), (35, 45), (46, 56)], _ => &[(1, 12), (13, 23), (24, 34), (35, 45), (46, 56)] };
    let (sb, eb) = *rng.pick(fields);
    let mut out = mb & !(1u64 << (56 - sb));
    if rng.chance(0.5) {
        // "not available": status clear and the whole field zero
        for b in sb..=eb { out &= !(1u64 << (56 - b)); }
    }
    out
}

fn boundary50(rng: &mut Rng) -> F50 {
    let mut f = gen::valid_f50(rng);
    match rng.below(8) {
        6 => { f.trk_sign = 1; f.trk = 0; }               // true track exactly 180 deg
        7 => { f.tar_sign = 1; f.tar = 0; }               // -16 deg/s
        0 => { f.roll_sign = 0; f.roll = 284; }           // 49.9 deg
        1 => { f.roll_sign = 1; f.roll = 512 - 284; }     // -49.9 deg
        2 => { f.gs = 300; f.tas = 250; }                 // GS 600, TAS 500
        3 => { f.gs = 299; f.tas = 200; }                 // |GS-TAS| = 198
        4 => { f.tar_sign = 1; f.tar = 1; }               // -15.97 deg/s
        _ => { f.tar_sign = 0; f.tar = 511; }
    }
    f
}

fn boundary60(rng: &mut Rng) -> F60 {
    let mut f = gen::valid_f60(rng);
    match rng.below(7) {
        5 | 6 => { f.hdg_sign = 1; f.hdg = 0; }             // magnetic heading exactly 180 deg
        0 => f.mach = 250,                                  // Mach 1.0
        1 => { f.baro_sign = 0; f.baro = 187; }             // +5984
        2 => { f.baro_sign = 1; f.baro = 512 - 187; }       // -5984
        3 => { f.ivv_sign = 1; f.ivv = 512 - 187; }
        _ => { f.hdg_sign = 1; f.hdg = 1; }
    }
    f
}

fn gen(rng: &mut Rng, _idx: u64, tier: Tier) -> Case {
    let d = *rng.pick(&[5i64, 60, 600]);
    let mut args = vec![format!("--delete-after={}", d)];
    if rng.chance(0.35) { args.push("--relaxed".into()); }
    if rng.chance(0.4) { args.push("--use-update-method".into()); }
    gen::add_neutral_options(rng, &mut args, true, true);
    let n_ac = rng.range(1, 3) as usize;
    let addrs = gen::addresses(rng, n_ac);
    let mut acs: Vec<gen::Ac> = addrs.iter().map(|&a| gen::aircraft(rng, a)).collect();
    for a in acs.iter_mut() {
        a.ca = *rng.pick(&[0u64, 3, 4, 5, 5, 6, 7]);
        a.caps = CAP_BDS20 | (rng.bits(24) & (CAP_BDS40 | CAP_BDS50 | CAP_BDS60 | CAP_BDS44 | 0x00F000));
        if rng.chance(0.3) { a.caps |= CAP_BDS40 | CAP_BDS50 | CAP_BDS60; }
    }
    let n = if tier == Tier::Thorough && rng.chance(0.05) { rng.range(80, 300) } else { rng.range(3, 40) } as usize;
    let mut lines: Vec<(i64, Vec<u8>, String)> = vec![];
    let mut last_reply: BTreeMap<usize, Vec<u8>> = BTreeMap::new();
    for _ in 0..n {
        let a = rng.below(n_ac as u64) as usize;
        let ac = &mut acs[a];
        let df = if rng.chance(0.5) { 20 } else { 21 };
        let mk = |rng: &mut Rng, ac: &gen::Ac, mb: u64| -> Vec<u8> {
            let field = if df == 20 { ac13_q1(ac.alt_n) } else { id13(ac.sq[0], ac.sq[1], ac.sq[2], ac.sq[3]) };
            df20_21(df, ac.icao, rng.below(8), rng.below(32), rng.below(64), field, mb)
        };
        let (f, tag): (Vec<u8>, String) = match rng.below(24) {
            0 | 1 | 2 => {
                // rarely a transponder that first reported a low capability reports a higher one later (never back)
                if ac.ca < 4 && rng.chance(0.1) { ac.ca = rng.range(4, 7) as u64; }
                // an aircraft with CA >= 4 may report different values >= 4 over time (airborne / on ground ...):
                // "a capability of 4 or more has been recorded" stays unambiguous
                if ac.ca >= 4 && rng.chance(0.4) { ac.ca = rng.range(4, 7) as u64; }
                (gen::frame(rng, ac, Kind::Df11, true), "df11".into())
            }
            3 => { let k = *rng.pick(&[Kind::Ident, Kind::AirPos, Kind::Vel12, Kind::SurfPos, Kind::SurfPos, Kind::Tc31]); (gen::frame(rng, ac, k, true), "df17".into()) }
            4 | 5 | 6 => { let mb = mb_bds17(ac.caps); (mk(rng, ac, mb), "bds17".into()) }
            7 => { let mb = mb_bds17(ac.caps) | (1u64 << rng.below(20)); (mk(rng, ac, mb), "bds17-reserved-bit".into()) }
            8 => { let mb = mb_bds20(pack_callsign(&gen::callsign(rng))); (mk(rng, ac, mb), "bds20".into()) }
            9 => {
                let mut mb = mb_bds30(rng.bits(48));
                let mut tag = "bds30";
                if n_ac > 1 && rng.chance(0.5) {
                    // threat identity = the Mode S address of another aircraft in the table (TTI = 01)
                    let other = addrs[(a + 1) % n_ac] as u64;
                    mb = (mb & !(0x3u64 << 26) & !(0xFF_FFFFu64 << 2)) | (0b01u64 << 26) | ((other & 0xFF_FFFF) << 2);
                    tag = "bds30-names-other";
                }
                (mk(rng, ac, mb), tag.into())
            }
            10 | 11 => { let mut f4 = gen::valid_f40(rng); f4.s_mode = 1; f4.s_src = 1; (mk(rng, ac, mb_bds40(&f4)), "bds40".into()) }
            12 => { let mb = mb_bds40(&gen::valid_f40(rng)) | (1u64 << (56 - *rng.pick(&[40u32, 43, 47, 52, 53]))); (mk(rng, ac, mb), "bds40-reserved-bit".into()) }
            13 | 14 | 15 => { let f5 = if rng.chance(0.3) { boundary50(rng) } else { gen::valid_f50(rng) }; let t = if f5.tar_sign == 1 { "bds50-left-turn" } else { "bds50-right-turn" }; (mk(rng, ac, mb_bds50(&f5)), t.into()) }
            16 | 17 | 18 => { let f6 = if rng.chance(0.3) { boundary60(rng) } else { gen::valid_f60(rng) }; let t = if f6.baro_sign == 1 { "bds60-descent" } else { "bds60-climb" }; (mk(rng, ac, mb_bds60(&f6)), t.into()) }
            19 => {
                let reg = *rng.pick(&[40u32, 50, 60]);
                let mb = match reg { 40 => mb_bds40(&gen::valid_f40(rng)), 50 => mb_bds50(&gen::valid_f50(rng)), _ => mb_bds60(&gen::valid_f60(rng)) };
                let mb2 = one_status_cleared(rng, reg, mb);
                (mk(rng, ac, mb2), format!("bds{}-status-cleared", reg))
            }
            20 => {
                let mb = match rng.below(4) {
                    0 => rng.bits(56),
                    // sparse registers: a run of random bits, everything after (or before) it zero -
                    // the shapes that a shortened reserved-bit range or a missing status test lets through
                    1 => { let k = rng.range(8, 48) as u32; rng.bits(k) << (56 - k) }
                    2 => { let k = rng.range(8, 48) as u32; rng.bits(k) }
                    _ => {
                        // a valid BDS 4,0 that looks like a capability report to a sloppy test: MB bit 7 set,
                        // low bits of the pressure field and all mode / source bits zero
                        let mut f4 = gen::valid_f40(rng);
                        f4.mcp |= 1 << 6;
                        f4.baro = (f4.baro & !0x7F).max(128);
                        f4.s_mode = 0; f4.mode = 0; f4.s_src = 0; f4.src = 0;
                        mb_bds40(&f4)
                    }
                };
                (mk(rng, ac, mb), "mb-sparse".into())
            }
            21 => (mk(rng, ac, 0), "mb-zero".into()),
            22 => { let mb = mb_bds10(rng.bits(48)); (mk(rng, ac, mb), "bds10".into()) }
            _ => {
                // beyond a plausibility limit: unconstrained by the property, exercises the limits
                let mut f5 = gen::valid_f50(rng);
                match rng.below(3) { 0 => { f5.roll_sign = 0; f5.roll = 300; } 1 => { f5.gs = 310; f5.tas = 240; } _ => { f5.gs = 290; f5.tas = 180; } }
                (mk(rng, ac, mb_bds50(&f5)), "bds50-implausible".into())
            }
        };
        let dt = if rng.chance(0.07) { (d + rng.range(0, 2)) * 1_000_000 } else if rng.chance(0.05) { rng.range(d * 300_000, d * 990_000) } else { gen::gap_us(rng, d).min(6_000_000) };
        // the ground station may ask again and get the very same reply (also after other messages)
        let f = if rng.chance(0.06) { last_reply.get(&a).cloned().unwrap_or(f) } else { f };
        if matches!(modes::df_of(&f), 20 | 21) { last_reply.insert(a, f.clone()); }
        let line = gen::line_of(rng, &f, false);
        if rng.chance(0.06) { continue; } // lost
        lines.push((dt, line.clone(), tag.clone()));
        if rng.chance(0.08) { lines.push((if rng.chance(0.5) { 0 } else { rng.range(1, 2_000_000) }, line, format!("{}:duplicate", tag))); }
    }
    for _ in 0..(lines.len() / 10) {
        let i = rng.below(lines.len() as u64) as usize;
        let j = (i + rng.range(1, 4) as usize).min(lines.len() - 1);
        if i != j { let mut l = lines.remove(i); l.2 = format!("{}:reorder", l.2.split(':').next().unwrap_or("")); lines.insert(j, l); }
    }
    gen::clock_steps_back(rng, &mut lines, 0.06);
    gen::long_uptime(rng, &mut lines, 0.03);
    gen::near_time_boundary(rng, &mut lines, 0.02);
    let ops = gen::ops_of(rng, lines, Chunking::Line);
    let mut script = Script::file(args, ops);
    script.tcp = rng.chance(0.15);
    Case { property: "C10".into(), mode: String::new(), script, args_b: None, log_level_b: None, meta: serde_json::Value::Null }
}

#[derive(Clone, Copy, PartialEq, Debug)]
enum Tri { No, Maybe, Yes }

#[derive(Clone, Debug)]
struct Gate {
    /// CA >= 4 recorded: Yes after a DF11 (recorded on every path), Maybe after only a DF17 (recorded with -U only).
    ca: Tri,
    adv: BTreeMap<u32, Tri>,
}
impl Default for Gate {
    fn default() -> Self { Gate { ca: Tri::No, adv: [(40, Tri::No), (50, Tri::No), (60, Tri::No)].into_iter().collect() } }
}

fn fields40(r: &Row) -> (Option<u32>, Option<u32>) { (r.selected_altitude, r.barometric_pressure_setting) }
fn fields50(r: &Row) -> (Option<i32>, Option<u32>, Option<i32>, Option<u32>, Option<u32>) { (r.roll_angle, r.track, r.track_angle_rate, r.grspeed, r.true_airspeed) }
fn fields60(r: &Row) -> (Option<u32>, Option<u32>, Option<u64>, Option<i32>) { (r.heading, r.indicated_airspeed, r.mach_number.map(|m| m.0.to_bits()), r.vrate) }

fn check(case: &Case, st: &mut Stats) -> Vec<Violation> {
    let h = exec::run(&case.script);
    st.observe(case, &h);
    if let Outcome::Panic(_) | Outcome::Wedge(_) = h.outcome { st.discarded_by_crash += 1; return vec![]; }
    let mut v = vec![];
    let d = case.script.delete_after();
    let relaxed = case.script.has_arg("--relaxed");
    let uflag = case.script.has_arg("--use-update-method");
    let empty: Arc<Snapshot> = Arc::new(Snapshot::new());
    let mut gates: BTreeMap<u32, Gate> = BTreeMap::new();
    let (mut decoded, mut ignored) = (0, 0);
    'steps: for (i, s) in h.steps.iter().enumerate() {
        let before = if i == 0 { &empty } else { &h.steps[i - 1].after };
        st.state(abstract_state(&s.after, s.t_us, d, &format!("{}{}", relaxed as u8, uflag as u8), s.tag.split(':').next().unwrap_or("")));
        if s.lines.len() != 1 { continue; }
        let c = refm::classify(&s.lines[0]);
        if !c.accepted || !c.judged { continue; }
        let a = c.addr.unwrap();
        let frame = c.frame.as_ref().unwrap();
        let prev = before.get(&a);
        if prev.is_none() { gates.remove(&a); } // the row is new: whatever was announced before is forgotten
        let g = gates.entry(a).or_default();
        let ca = modes::get_bits(frame, 6, 8);
        match c.df {
            11 => { g.ca = if ca >= 4 { Tri::Yes } else { Tri::No }; continue; }
            17 => { if ca >= 4 { if g.ca == Tri::No { g.ca = Tri::Maybe; } } else if g.ca != Tri::No { g.ca = Tri::Maybe; } continue; }
            20 | 21 => {}
            _ => continue,
        }
        // a reply of one aircraft never changes what was derived from the Comm-B replies of another
        for (k, rb) in before.iter() {
            if *k == a { continue; }
            if let Some(ra) = s.after.get(k) {
                if fields40(ra) != fields40(rb) || fields50(ra) != fields50(rb) || fields60(ra) != fields60(rb) || ra.ais != rb.ais || ra.threat_encounter != rb.threat_encounter || (ra.cap_flags, ra.cap_bds) != (rb.cap_flags, rb.cap_bds) {
                    v.push(viol("C10.ungated-change", i, format!("a DF{} reply of {:06X} changed Comm-B derived fields of {:06X}, which sent nothing: {}", c.df, a, k, crate::row::diff_fields(rb, ra).join("; ")), json!({"other_aircraft": true, "df": c.df, "tag": s.tag.split(':').next().unwrap_or("")})));
                    break 'steps;
                }
            }
        }
        let (Some(prev), Some(new)) = (prev, s.after.get(&a)) else { continue }; // row-creating reply: address only
        st.oracle_evals += 1;
        if s.tag.contains("clock-back") { st.probe("clock_set_back"); }
        let mb = ehs::mb_of_frame(frame);
        let gate_open = relaxed || g.ca == Tri::Yes;
        let gate_possible = relaxed || g.ca != Tri::No;
        let w = |reg: u32, extra: serde_json::Value| { let mut o = json!({"reg": reg, "relaxed": relaxed, "use_update_method": uflag, "df": c.df, "tag": s.tag.split(':').next().unwrap_or("")}); if let (Some(o), Some(e)) = (o.as_object_mut(), extra.as_object()) { for (k, x) in e { o.insert(k.clone(), x.clone()); } } o };
        // -------- what changed, and was it allowed
        let ch40 = fields40(prev) != fields40(new);
        let ch50 = fields50(prev) != fields50(new) || prev.bds_5_0_timestamp != new.bds_5_0_timestamp;
        let ch60 = fields60(prev) != fields60(new) || prev.heading_timestamp != new.heading_timestamp;
        let ch20 = prev.ais != new.ais;
        let ch30 = prev.threat_encounter != new.threat_encounter;
        let ch17 = (prev.cap_flags, prev.cap_bds) != (new.cap_flags, new.cap_bds);
        let any_change = ch40 || ch50 || ch60 || ch20 || ch30 || ch17;
        if any_change { decoded += 1; } else { ignored += 1; }
        if any_change && !gate_possible {
            let which = [(ch17, 17), (ch20, 20), (ch30, 30), (ch40, 40), (ch50, 50), (ch60, 60)].iter().filter(|x| x.0).map(|x| x.1).collect::<Vec<u32>>();
            v.push(viol("C10.ungated-change", i, format!("{:06X}: Comm-B derived fields (registers {:?}) changed on a DF{} reply although no capability >= 4 has been recorded and -R is not given", a, which, c.df), w(which[0], json!({"gate": "ca"}))));
            break 'steps;
        }
        for (chg, reg) in [(ch40, 40u32), (ch50, 50), (ch60, 60)] {
            if chg && !relaxed && g.adv[&reg] == Tri::No {
                v.push(viol("C10.ungated-change", i, format!("{:06X}: BDS {},{} fields changed although no BDS 1,7 report of this aircraft advertised the register (and no -R)", a, reg / 10, reg % 10), w(reg, json!({"gate": "advertised"}))));
                break 'steps;
            }
        }
        // -------- validity and values of what was taken
        if ch40 {
            if !ehs::core_valid40(mb) {
                v.push(viol("C10.invalid-accepted", i, format!("{:06X}: MB {:014X} taken as BDS 4,0 although a status bit is clear or a reserved bit is set", a, mb), w(40, json!({}))));
                break 'steps;
            }
            let dd = ehs::decode40(mb);
            let sel_ok = new.selected_altitude == Some(dd.mcp_alt) || new.selected_altitude == Some(dd.fms_alt);
            if !sel_ok || new.barometric_pressure_setting != Some(dd.baro_mb) {
                v.push(viol("C10.wrong-value", i, format!("{:06X}: BDS 4,0 {:014X}: row shows selected altitude {:?} / pressure {:?}, Doc 9871 gives MCP {} FMS {} / {} mb", a, mb, new.selected_altitude, new.barometric_pressure_setting, dd.mcp_alt, dd.fms_alt, dd.baro_mb), w(40, json!({}))));
                break 'steps;
            }
        }
        if ch50 {
            if !ehs::all_status50(mb) {
                v.push(viol("C10.invalid-accepted", i, format!("{:06X}: MB {:014X} taken as BDS 5,0 although a status bit is clear", a, mb), w(50, json!({}))));
                break 'steps;
            }
            let dd = ehs::decode50(mb);
            let ok = new.roll_angle.map(|x| ehs::int_matches(x as i64, dd.roll)).unwrap_or(false)
                && new.track.map(|x| ehs::int_matches(x as i64, dd.track) || (x == 360 && dd.track >= 359.0)).unwrap_or(false)
                && new.track_angle_rate.map(|x| ehs::int_matches(x as i64, dd.tar)).unwrap_or(false)
                && new.grspeed == Some(dd.gs) && new.true_airspeed == Some(dd.tas);
            if !ok {
                v.push(viol("C10.wrong-value", i, format!("{:06X}: BDS 5,0 {:014X}: row shows roll {:?} track {:?} rate {:?} GS {:?} TAS {:?}; Doc 9871 gives roll {:.2} track {:.2} rate {:.3} GS {} TAS {}", a, mb, new.roll_angle, new.track, new.track_angle_rate, new.grspeed, new.true_airspeed, dd.roll, dd.track, dd.tar, dd.gs, dd.tas), w(50, json!({}))));
                break 'steps;
            }
        }
        if ch60 {
            if !ehs::all_status60(mb) {
                v.push(viol("C10.invalid-accepted", i, format!("{:06X}: MB {:014X} taken as BDS 6,0 although a status bit is clear", a, mb), w(60, json!({}))));
                break 'steps;
            }
            let dd = ehs::decode60(mb);
            let ok = new.heading.map(|x| ehs::int_matches(x as i64, dd.hdg) || (x == 360 && dd.hdg >= 359.0)).unwrap_or(false)
                && new.indicated_airspeed == Some(dd.ias)
                && new.mach_number.map(|m| (m.0 - dd.mach).abs() < 1e-9).unwrap_or(false)
                && (new.vrate == Some(dd.baro_rate) || new.vrate == Some(dd.ivv));
            if !ok {
                v.push(viol("C10.wrong-value", i, format!("{:06X}: BDS 6,0 {:014X}: row shows heading {:?} IAS {:?} Mach {:?} vertical rate {:?}; Doc 9871 gives heading {:.2} IAS {} Mach {:.3} rate {} / {}", a, mb, new.heading, new.indicated_airspeed, new.mach_number.map(|m| m.0), new.vrate, dd.hdg, dd.ias, dd.mach, dd.baro_rate, dd.ivv), w(60, json!({}))));
                break 'steps;
            }
        }
        if ch17 {
            if !ehs::valid17(mb) {
                v.push(viol("C10.invalid-accepted", i, format!("{:06X}: MB {:014X} taken as a BDS 1,7 report although its reserved bits are not zero or BDS 2,0 is not flagged", a, mb), w(17, json!({}))));
                break 'steps;
            }
            if new.cap_flags != ehs::caps24(mb) {
                v.push(viol("C10.wrong-value", i, format!("{:06X}: BDS 1,7 {:014X}: recorded flags {:06X}, report says {:06X}", a, mb, new.cap_flags, ehs::caps24(mb)), w(17, json!({}))));
                break 'steps;
            }
        }
        if ch20 && mb >> 48 == 0x20 {
            let want = ehs::callsign20(mb);
            if new.ais.clone().unwrap_or_default() != want {
                v.push(viol("C10.wrong-value", i, format!("{:06X}: BDS 2,0 {:014X}: row shows callsign {:?}, register says {:?}", a, mb, new.ais, want), w(20, json!({}))));
                break 'steps;
            }
        }
        // -------- converse: a valid, plausible, advertised register is decoded once gating allows
        if gate_open && mb >> 48 == 0x20 {
            st.probe("bds20_offered");
            let want = ehs::callsign20(mb);
            if new.ais.clone().unwrap_or_default() != want {
                v.push(viol("C10.valid-rejected", i, format!("{:06X}: BDS 2,0 {:014X} (callsign {:?}) was not decoded once gating allows: row shows {:?}", a, mb, want, new.ais), w(20, json!({}))));
                break 'steps;
            }
        } else if gate_open && ehs::valid17(mb) && !matches!(mb >> 48, 0x10 | 0x30) {
            st.probe("bds17_offered");
            if new.cap_flags != ehs::caps24(mb) {
                v.push(viol("C10.valid-rejected", i, format!("{:06X}: BDS 1,7 report {:014X} was not recorded once gating allows: flags {:06X}", a, mb, new.cap_flags), w(17, json!({}))));
                break 'steps;
            }
        }
        if gate_open {
            let adv_ok = |reg: u32| relaxed || g.adv[&reg] == Tri::Yes;
            if ehs::all_status40(mb) && ehs::nonzero40(mb) && ehs::clearly_not17(mb) && adv_ok(40) {
                let dd = ehs::decode40(mb);
                st.probe("valid40_offered");
                if !(new.selected_altitude == Some(dd.mcp_alt) || new.selected_altitude == Some(dd.fms_alt)) || new.barometric_pressure_setting != Some(dd.baro_mb) {
                    v.push(viol("C10.valid-rejected", i, format!("{:06X}: valid, advertised BDS 4,0 {:014X} (MCP {} FMS {} baro {}) was not decoded: row shows {:?} / {:?}", a, mb, dd.mcp_alt, dd.fms_alt, dd.baro_mb, new.selected_altitude, new.barometric_pressure_setting), w(40, json!({}))));
                    break 'steps;
                }
            } else if ehs::all_status50(mb) && ehs::plausible50(mb) && ehs::clearly_not17(mb) && ehs::clearly_not40(mb) && adv_ok(50) {
                let dd = ehs::decode50(mb);
                let left = dd.tar < 0.0;
                st.probe(if left { "bds50_left_turn_offered" } else { "bds50_right_turn_offered" });
                let ok = new.roll_angle.map(|x| ehs::int_matches(x as i64, dd.roll)).unwrap_or(false)
                    && new.track.map(|x| ehs::int_matches(x as i64, dd.track) || (x == 360 && dd.track >= 359.0)).unwrap_or(false)
                    && new.track_angle_rate.map(|x| ehs::int_matches(x as i64, dd.tar)).unwrap_or(false)
                    && new.grspeed == Some(dd.gs) && new.true_airspeed == Some(dd.tas) && new.bds_5_0_timestamp == Some(s.t_us);
                if !ok {
                    v.push(viol("C10.valid-rejected", i, format!("{:06X}: valid, advertised BDS 5,0 {:014X} (roll {:.1} track {:.1} rate {:.2} deg/s GS {} TAS {}) was not decoded: row shows roll {:?} track {:?} rate {:?} GS {:?} TAS {:?}", a, mb, dd.roll, dd.track, dd.tar, dd.gs, dd.tas, new.roll_angle, new.track, new.track_angle_rate, new.grspeed, new.true_airspeed), w(50, json!({"left_turn": left, "roll_negative": dd.roll < 0.0}))));
                    break 'steps;
                }
            } else if ehs::all_status60(mb) && ehs::plausible60(mb) && ehs::clearly_not17(mb) && ehs::clearly_not40(mb) && (ehs::clearly_not50(mb) || ehs::clearly_implausible50(mb)) && adv_ok(60) {
                if !ehs::clearly_not50(mb) { st.probe("bds60_with_implausible_50_reading"); }
                let dd = ehs::decode60(mb);
                st.probe(if dd.baro_rate < 0 { "bds60_descent_offered" } else { "bds60_climb_offered" });
                let ok = new.heading.map(|x| ehs::int_matches(x as i64, dd.hdg) || (x == 360 && dd.hdg >= 359.0)).unwrap_or(false)
                    && new.indicated_airspeed == Some(dd.ias)
                    && new.mach_number.map(|m| (m.0 - dd.mach).abs() < 1e-9).unwrap_or(false)
                    && (new.vrate == Some(dd.baro_rate) || new.vrate == Some(dd.ivv)) && new.heading_timestamp == Some(s.t_us);
                if !ok {
                    v.push(viol("C10.valid-rejected", i, format!("{:06X}: valid, advertised BDS 6,0 {:014X} (heading {:.1} IAS {} Mach {:.3} rates {} / {}) was not decoded: row shows {:?} {:?} {:?} {:?}", a, mb, dd.hdg, dd.ias, dd.mach, dd.baro_rate, dd.ivv, new.heading, new.indicated_airspeed, new.mach_number.map(|m| m.0), new.vrate), w(60, json!({"descent": dd.baro_rate < 0}))));
                    break 'steps;
                }
            }
        }
        // -------- automaton: a BDS 1,7 report changes what is advertised (if the implementation could take it)
        if ehs::valid17(mb) && mb >> 48 != 0x10 && mb >> 48 != 0x20 && mb >> 48 != 0x30 {
            st.probe("bds17_report_delivered");
            for reg in [40u32, 50, 60] {
                let bit = if ehs::adv(mb, reg) { Tri::Yes } else { Tri::No };
                let cur = g.adv[&reg];
                let next = if gate_open { bit } else if gate_possible { if cur == bit { cur } else { Tri::Maybe } } else { cur };
                g.adv.insert(reg, next);
            }
        } else if ch17 {
            // the implementation recorded something the reference does not call a report: be conservative afterwards
            for reg in [40u32, 50, 60] { g.adv.insert(reg, Tri::Maybe); }
        }
    }
    if decoded > 0 && ignored > 0 {
        st.nontrivial_runs += 1;
        if st.scripts.len() < crate::stats::MAX_SET { st.scripts.insert(fnv(serde_json::to_string(&case.script).unwrap().as_bytes())); }
    }
    v
}
