//! C03 - every frame is attributed to exactly the address it encodes; rows are isolated.
use super::{viol, Prop, Tier};
use crate::exec::{self, Outcome};
use crate::gen::{self, Chunking, Kind};
use crate::modes;
use crate::refm::{self, Expiry};
use crate::rng::Rng;
use crate::row::{diff_fields, Snapshot};
use crate::script::{Case, Script, Violation};
use crate::stats::{abstract_state, fnv, Stats};
use serde_json::json;
use std::sync::Arc;

pub fn prop() -> Prop {
    Prop {
        id: "C03",
        gen,
        check,
        quick_runs: 24_000,
        both_profiles: false,
        rule: "a run = interleaved traffic of 2-4 aircraft with adversarially close addresses (one-bit neighbours, byte-swapped, shared halves, 000001, FFFFFF) in all nine formats with structured and random payloads, plus zero-address frames, duplicates, reordering and time-stamped lines whose frame was hit by noise behind a stamp that itself begins like a DF0/4/5 or DF16/20/21 frame; the table is diffed after every delivered read; in 6 % of the runs the wall clock is set back once or twice (by < 1 s up to 15 s); 0.3 % of the runs track more than 1000 aircraft; runs may begin after a long uptime or just before a calendar boundary; non-trivial = frames of at least two distinct addresses were applied; distinct = distinct scripts",
        level_text: "seeded exploration of interleaved multi-aircraft histories; invariants after every event against an independent CRC-24 / address reference: only the row of the frame's address may change, that row exists afterwards, no row for address 0, row key equals row address, no unexplained new rows",
    }
}

/// A frame of one of the nine formats with an entirely random payload.
fn random_payload_frame(rng: &mut Rng, icao: u32) -> Vec<u8> {
    let df = *rng.pick(&[0u64, 4, 5, 11, 16, 17, 18, 20, 21]);
    let long = df >= 16;
    let body = ((rng.next() as u128) << 64) | rng.next() as u128;
    let mut f = modes::raw_frame(df, long, body, 0);
    if matches!(df, 11 | 17 | 18) {
        modes::set_bits(&mut f, 9, 32, icao as u64);
        modes::seal(&mut f, if df == 11 && rng.chance(0.3) { rng.bits(7) as u32 } else { 0 });
    } else {
        modes::seal(&mut f, icao);
    }
    f
}

/// Address/parity formats at the edges of the overlay arithmetic: a frame whose AP field is 000000
/// (address == CRC of the data bits) and a frame whose data bits are all zero (CRC == 0, AP == address).
fn overlay_edge_frame(rng: &mut Rng, icao: u32) -> (Vec<u8>, &'static str) {
    let df = *rng.pick(&[0u64, 4, 5, 16, 20, 21]);
    let long = df >= 16;
    if rng.chance(0.7) {
        let body = ((rng.next() as u128) << 64) | rng.next() as u128;
        let mut f = modes::raw_frame(df, long, body, 0);
        let n = f.len();
        let crc = modes::crc24(&f[..n - 3]);
        if crc == 0 { modes::seal(&mut f, icao); return (f, "overlay-edge"); }
        // parity field all zero: the frame belongs to the aircraft whose address equals the CRC
        f[n - 3] = 0; f[n - 2] = 0; f[n - 1] = 0;
        (f, "ap-zero")
    } else {
        // DF0 with an all-zero body: CRC of the data is 0, so AP is the bare address
        let mut f = modes::raw_frame(0, false, 0, 0);
        modes::seal(&mut f, icao);
        (f, "crc-zero")
    }
}

fn gen(rng: &mut Rng, _idx: u64, tier: Tier) -> Case {
    let n_ac = rng.range(2, 4) as usize;
    let addrs = gen::addresses(rng, n_ac);
    let mut acs: Vec<gen::Ac> = addrs.iter().map(|&a| gen::aircraft(rng, a)).collect();
    // two aircraft may well use the same callsign (or squawk)
    if acs.len() > 1 && rng.chance(0.3) { acs[1].callsign = acs[0].callsign.clone(); acs[1].sq = acs[0].sq; }
    let d = *rng.pick(&[5i64, 60, 600]);
    let mut args = vec![format!("--delete-after={}", d)];
    if rng.chance(0.4) { args.push("--use-update-method".into()); }
    if rng.chance(0.4) { args.push("--relaxed".into()); }
    if rng.chance(0.2) {
        // a filter list; frames it excludes must leave the table alone, the others keep their addresses
        let all = [0u32, 4, 5, 11, 16, 17, 18, 20, 21];
        let mut any = false;
        for k in all { if rng.chance(0.6) { args.push(format!("--filter={}", k)); any = true; } }
        if !any { args.push("--filter=17".into()); }
    }
    gen::add_neutral_options(rng, &mut args, true, true);
    let n = if tier == Tier::Thorough && rng.chance(0.05) { rng.range(100, 500) } else { rng.range(3, 50) } as usize;
    let mut lines: Vec<(i64, Vec<u8>, String)> = vec![];
    // sometimes the sky is crowded: well over a hundred other aircraft are already being tracked
    if rng.chance(0.04) {
        let crowd = rng.range(100, 260) as usize;
        let base = (rng.bits(24) as u32 | 0x100000) & 0xFFF000;
        for i in 0..crowd {
            let mut ac = gen::aircraft(rng, base + 1 + i as u32);
            let k = *rng.pick(&[Kind::Df11, Kind::Ident, Kind::AirPos, Kind::Df4, Kind::Df5]);
            let f = gen::frame(rng, &mut ac, k, true);
            lines.push((if rng.chance(0.1) { rng.range(0, 50_000) } else { 0 }, gen::line_of(rng, &f, false), "crowd".into()));
        }
    }
    // very rarely the sky is extremely crowded: more than a thousand aircraft, learned in one big read
    if rng.chance(0.003) {
        let crowd = rng.range(1000, 1100) as usize;
        let base = (rng.bits(24) as u32 | 0x200000) & 0xFFF000;
        let mut blob: Vec<u8> = vec![];
        for i in 0..crowd {
            let mut ac = gen::aircraft(rng, base + 1 + i as u32);
            let k = *rng.pick(&[Kind::Df11, Kind::Ident, Kind::AirPos, Kind::Df4, Kind::Df5]);
            let f = gen::frame(rng, &mut ac, k, true);
            blob.extend(gen::line_of(rng, &f, false));
        }
        lines.push((0, blob, "big-crowd".into()));
    }
    for _ in 0..n {
        let a = rng.below(n_ac as u64) as usize;
        let dt = gen::gap_us(rng, d).min(8_000_000);
        let (f, tag) = match rng.below(10) {
            0..=3 => { let f = random_payload_frame(rng, acs[a].icao); (f, "random-payload".to_string()) }
            4 => {
                // address zero: must be dropped
                let mut z = gen::aircraft(rng, 0);
                let k = *rng.pick(&[Kind::Df0, Kind::Df4, Kind::Df5, Kind::Df11, Kind::Df16, Kind::Ident, Kind::Df18, Kind::Df20(gen::Reg::B20), Kind::Df21(gen::Reg::Random)]);
                (gen::frame(rng, &mut z, k, false), "zero-address".to_string())
            }
            5 if rng.chance(0.3) => (gen::frame(rng, &mut acs[a], Kind::OtherDf, false), "otherdf".to_string()),
            6 if rng.chance(0.5) => { let (f, t) = overlay_edge_frame(rng, acs[a].icao); (f, t.to_string()) }
            7 if n_ac > 1 && rng.chance(0.4) => { let other = acs[(a + 1) % n_ac].icao; (gen::acas_ra_frame(rng, &acs[a], other), "acas-ra-names-other".to_string()) }
            _ => { let k = *rng.pick(gen::COMMON_KINDS); (gen::frame(rng, &mut acs[a], k, false), format!("{:?}", k).to_lowercase()) }
        };
        let deco = rng.below(4) == 0;
        let line = gen::line_of(rng, &f, deco);
        lines.push((dt, line.clone(), tag.clone()));
        if rng.chance(0.08) { lines.push((0, line, format!("{}:duplicate", tag))); }
        if rng.chance(0.05) {
            // a time-stamped line whose frame was hit by noise; the stamp itself begins like a frame whose parity
            // cannot be checked (DF0/4/5 in front of a short frame, DF16/20/21 in front of a long one) - whatever
            // the line is read as, the reference decides (rejected: nothing may change)
            let k = *rng.pick(&[Kind::Df11, Kind::Df11, Kind::Ident, Kind::AirPos, Kind::Df18]);
            let mut f = gen::frame(rng, &mut acs[a], k, false);
            let bit = rng.below(f.len() as u64 * 8) as usize;
            f[bit / 8] ^= 0x80 >> (bit % 8);
            let lead: u64 = if f.len() == 7 { *rng.pick(&[0x00u64, 0x02, 0x20, 0x25, 0x28, 0x2F]) } else { *rng.pick(&[0x80u64, 0x85, 0xA0, 0xA7, 0xA8, 0xAF]) };
            let stamp = (lead << 40) | rng.bits(40);
            let l = match rng.below(3) { 0 => format!("@{:012X}{};\n", stamp, modes::to_hex(&f)), 1 => format!("{:012X}{}\n", stamp, modes::to_hex(&f)), _ => format!("@{:012x}{};\r\n", stamp, modes::to_hex(&f).to_lowercase()) };
            lines.push((0, l.into_bytes(), "stamped-damaged".into()));
        }
    }
    // reordering: delay some lines past later ones
    for _ in 0..(n / 8) {
        let i = rng.below(lines.len() as u64) as usize;
        let j = (i + rng.range(1, 4) as usize).min(lines.len() - 1);
        if i != j {
            let mut l = lines.remove(i);
            l.2 = format!("{}:reorder", l.2.split(':').next().unwrap_or(""));
            lines.insert(j, l);
        }
    }
    gen::clock_steps_back(rng, &mut lines, 0.06);
    gen::long_uptime(rng, &mut lines, 0.03);
    gen::near_time_boundary(rng, &mut lines, 0.02);
    let ch = *rng.pick(&[Chunking::Line, Chunking::Line, Chunking::Multi, Chunking::Pieces]);
    let mut script = Script::file(args, vec![]);
    script.tcp = rng.chance(0.25);
    if script.tcp && rng.chance(0.6) && lines.len() >= 2 {
        // the feed reconnects; the old connection may end in the middle of a line (which is then just a malformed line)
        let cut = rng.range(1, lines.len() as i64 - 1) as usize;
        let rest = lines.split_off(cut);
        let mut first = gen::ops_of(rng, lines, ch);
        if rng.chance(0.5) {
            let f = random_payload_frame(rng, acs[0].icao);
            let h = modes::to_hex(&f).into_bytes();
            let k = if rng.chance(0.4) { 14.min(h.len() - 1) } else { rng.range(1, h.len() as i64 - 1) as usize };
            first.push(crate::script::Op::Data { dt_us: 0, bytes: crate::script::Bytes(h[..k].to_vec()), tag: "partial".into() });
        }
        first.push(if rng.chance(0.6) { crate::script::Op::Eof { dt_us: 0 } } else { crate::script::Op::Err { dt_us: 0, kind: "ConnectionReset".into() } });
        script.conns = vec![crate::script::Conn::Accept { ops: first }, crate::script::Conn::Accept { ops: gen::ops_of(rng, rest, ch) }];
    } else {
        script.conns = vec![crate::script::Conn::Accept { ops: gen::ops_of(rng, lines, ch) }];
    }
    Case { property: "C03".into(), mode: String::new(), script, args_b: None, log_level_b: None, meta: serde_json::Value::Null }
}

fn check(case: &Case, st: &mut Stats) -> Vec<Violation> {
    let h = exec::run(&case.script);
    st.observe(case, &h);
    if let Outcome::Panic(_) | Outcome::Wedge(_) = h.outcome { st.discarded_by_crash += 1; return vec![]; }
    let mut v = vec![];
    let d = case.script.delete_after();
    let mut model = Expiry::new(d);
    let empty: Arc<Snapshot> = Arc::new(Snapshot::new());
    let mut applied_addrs = std::collections::BTreeSet::new();
    // aircraft that looked expired at the clock of some step (with a clock that can be set back this is more
    // than "a long gap between two of its own frames")
    let mut ever_stale: std::collections::BTreeSet<u32> = Default::default();
    let filter = case.script.filter();
    let passes = |df: u32| filter.as_ref().map(|f| f.contains(&df)).unwrap_or(true);
    for (i, s) in h.steps.iter().enumerate() {
        let before = if i == 0 { &empty } else { &h.steps[i - 1].after };
        st.state(abstract_state(&s.after, s.t_us, d, if case.script.has_arg("--use-update-method") { "U" } else { "-" }, s.tag.split(':').next().unwrap_or("")));
        let mut touched: Vec<u32> = vec![];
        let mut unjudged = false;
        let mut zero_frames = 0;
        for l in &s.lines {
            let c = refm::classify(l);
            if c.accepted && !passes(c.df) {
                st.probe("filtered_frame_seen");
            } else if c.accepted && c.judged {
                let a = c.addr.unwrap();
                for (b, _) in model.last.iter() { if model.maybe_stale(*b, s.t_us) { ever_stale.insert(*b); } }
                model.accept(a, s.t_us);
                touched.push(a);
                applied_addrs.insert(a);
            } else if c.accepted {
                unjudged = true;
                model.note_unjudged(s.t_us);
            } else if c.frame.is_some() && c.addr == Some(0) && c.parity_ok {
                zero_frames += 1;
                st.probe("zero_address_frame");
            }
        }
        for (a, _) in model.last.iter() { if model.maybe_stale(*a, s.t_us) { ever_stale.insert(*a); } }
        if s.tag.contains("clock-back") { st.probe("clock_set_back"); }
        st.oracle_evals += 1;
        // always: no row for address 0, key == address
        if s.after.contains_key(&0) {
            v.push(viol("C03.zero-row", i, format!("a row with address 000000 exists after lines {:?}", s.lines.iter().map(|l| crate::script::escape(l)).collect::<Vec<_>>()), json!({})));
            break;
        }
        if let Some((k, r)) = s.after.iter().find(|(k, r)| **k != r.icao) {
            v.push(viol("C03.key-mismatch", i, format!("row stored under {:06X} says it is {:06X}", k, r.icao), json!({})));
            break;
        }
        if unjudged { continue; }
        for a in &touched {
            if d >= 1 && !s.after.contains_key(a) {
                let l = s.lines.iter().find(|l| refm::classify(l).addr == Some(*a)).map(|l| crate::script::escape(l)).unwrap_or_default();
                let df = s.lines.iter().map(|l| refm::classify(l)).find(|c| c.addr == Some(*a)).map(|c| c.df).unwrap_or(99);
                v.push(viol("C03.missing-row", i, format!("accepted frame {} encodes address {:06X} but no such row exists afterwards (rows: {:?})", l, a, s.after.keys().map(|k| format!("{:06X}", k)).collect::<Vec<_>>()), json!({"df": df})));
            }
        }
        for k in s.after.keys() {
            if !before.contains_key(k) && !touched.contains(k) {
                let dfs: Vec<u32> = s.lines.iter().map(|l| refm::classify(l).df).collect();
                let rule = if zero_frames > 0 && touched.is_empty() { "C03.zero-row" } else { "C03.count" };
                v.push(viol(rule, i, format!("row {:06X} appeared although no delivered frame encodes that address (lines {:?}, reference addresses {:?})", k, s.lines.iter().map(|l| crate::script::escape(l)).collect::<Vec<_>>(), touched.iter().map(|a| format!("{:06X}", a)).collect::<Vec<_>>()), json!({"dfs": dfs})));
            }
        }
        for (a, rb) in before.iter() {
            if touched.contains(a) { continue; }
            match s.after.get(a) {
                Some(ra) if ra != rb => {
                    v.push(viol("C03.foreign-row", i, format!("row {:06X} changed although the delivered frames encode {:?}: {}", a, touched.iter().map(|a| format!("{:06X}", a)).collect::<Vec<_>>(), diff_fields(rb, ra).join("; ")), json!({})));
                }
                None if !model.maybe_stale(*a, s.t_us) => {
                    v.push(viol("C03.foreign-row", i, format!("row {:06X} (heard {:.3} s ago) was removed by frames of {:?}", a, (s.t_us - model.last.get(a).copied().unwrap_or(0)) as f64 / 1e6, touched.iter().map(|a| format!("{:06X}", a)).collect::<Vec<_>>()), json!({"removed": true})));
                }
                _ => {}
            }
        }
        if !v.is_empty() { break; }
    }
    // isolation as non-interference: the row of an aircraft after the interleaved history equals its row after
    // that aircraft's own frames alone, delivered at the same instants (only judged for an aircraft that never
    // went stale, so that sweeps - which depend on everybody's frames - cannot have removed it in either run)
    if v.is_empty() && applied_addrs.len() >= 2 && matches!(h.outcome, Outcome::FileOk | Outcome::SimEnd) {
        let mut own: std::collections::BTreeMap<u32, Vec<(i64, Vec<u8>)>> = Default::default();
        let mut unjudged_any = false;
        for s in &h.steps {
            for l in &s.lines {
                let c = refm::classify(l);
                if c.accepted && !passes(c.df) { continue; }
                if c.accepted && c.judged { own.entry(c.addr.unwrap()).or_default().push((s.t_us, l.clone())); } else if c.accepted { unjudged_any = true; }
            }
        }
        // deterministic choice: the aircraft with the most frames (ties: lowest address)
        let pick = own.iter().filter(|(a, fr)| !ever_stale.contains(*a) && fr.len() >= 2 && fr.windows(2).all(|w| (w[1].0 - w[0].0).div_euclid(1_000_000) < d) && (h.end_t_us - fr.last().unwrap().0).div_euclid(1_000_000) < d).max_by_key(|(a, fr)| (fr.len(), u32::MAX - **a));
        if let (Some((a, frames)), false) = (pick, unjudged_any) {
            let mut ops = vec![];
            let mut prev = exec::T0_US;
            for (t, l) in frames {
                let mut b = l.clone();
                b.push(b'\n');
                ops.push(crate::script::Op::Data { dt_us: t - prev, bytes: crate::script::Bytes(b), tag: "own".into() });
                prev = *t;
            }
            let solo = Script::file(case.script.args.clone(), ops);
            let hs = exec::run(&solo);
            st.executions += 1;
            if let (Some(r_all), Some(r_solo)) = (h.final_table.get(a), hs.final_table.get(a)) {
                st.probe("isolation_compared");
                if r_all != r_solo {
                    v.push(viol("C03.isolation", h.steps.len().saturating_sub(1), format!("row {:06X} after the interleaved history differs from its row after the same aircraft's own {} frames alone (alone -> interleaved): {}", a, frames.len(), diff_fields(r_solo, r_all).join("; ")), json!({})));
                }
            }
        }
    }
    if applied_addrs.len() >= 2 {
        st.nontrivial_runs += 1;
        if st.scripts.len() < crate::stats::MAX_SET { st.scripts.insert(fnv(serde_json::to_string(&case.script).unwrap().as_bytes())); }
    }
    v
}
