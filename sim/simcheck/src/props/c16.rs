//! C16 - DF filter admits only the listed formats; DF counters are exact.
use super::{viol, Prop, Tier};
use crate::exec::{self, Outcome};
use crate::gen::{self, Chunking, Kind};
use crate::modes;
use crate::refm;
use crate::rng::Rng;
use crate::row::{diff_snap, Snapshot};
use crate::script::{Case, Conn, Op, Script, Violation};
use crate::stats::{abstract_state, fnv, Stats};
use serde_json::json;
use std::collections::BTreeMap;
use std::sync::Arc;

pub fn prop() -> Prop {
    Prop {
        id: "C16",
        gen,
        check,
        quick_runs: 16_000,
        both_profiles: false,
        rule: "a run = a stream mixing all nine supported formats, unsupported DFs, zero-address frames, parity failures, length/DF mismatches and junk, under a -f subset (singletons, pairs, all, none, DFs that never occur), with/without -c, with --update=-1 (a refresh and counter line after every accepted frame) or positive intervals matched by simulated time steps; file source or TCP connections; silences of delete_after seconds and more inside a connection; every 4 000th run index has 1050-1600 aircraft; 3 % of the runs visit all 32 downlink formats; silences with one frame in the middle; non-trivial = at least one counter line was compared and (with -f) at least one frame was filtered out; distinct = distinct scripts",
        level_text: "seeded exploration of mixed streams with the refresh driven by the simulated clock and stdout captured through the seam; oracle: reference per-DF counter over accepted, non-zero-address, filter-passing frames of the connection equals the printed counter line (ascending DF order), filtered frames change neither table nor output, no counter line without -c",
    }
}

fn gen(rng: &mut Rng, idx: u64, tier: Tier) -> Case {
    let n_ac = rng.range(1, 4) as usize;
    let addrs = gen::addresses(rng, n_ac);
    let mut acs: Vec<gen::Ac> = addrs.iter().map(|&a| gen::aircraft(rng, a)).collect();
    let d = *rng.pick(&[5i64, 60, 600]);
    let mut args = vec![format!("--delete-after={}", d)];
    let with_c = rng.chance(0.85);
    if with_c { args.push("--count-df".into()); }
    let upd = *rng.pick(&[-1i64, -1, -1, 0, 1, 3]);
    args.push(format!("--update={}", upd));
    if rng.chance(0.3) { args.push("--use-update-method".into()); }
    let nine = [0u32, 4, 5, 11, 16, 17, 18, 20, 21];
    match rng.below(6) {
        0 => {}
        1 => args.push(format!("--filter={}", rng.pick(&nine))),
        2 => { for _ in 0..2 { args.push(format!("--filter={}", rng.pick(&nine))); } }
        3 => { for k in nine { args.push(format!("--filter={}", k)); } }
        4 => args.push(format!("--filter={}", rng.pick(&[1u32, 7, 19, 24, 31, 99, 32, 36, 37, 43, 49, 50, 52, 53, 4 + 256, 17 + 65536]))),
        _ => { for k in nine { if rng.chance(0.5) { args.push(format!("--filter={}", k)); } } }
    }
    if idx % 4000 == 9 {
        // a very crowded sky: well over a thousand aircraft, one frame each in big reads; the refresh comes at the end
        let n = rng.range(1_050, 1_600) as usize;
        let base = (rng.bits(24) as u32 | 0x400000) & 0xFFF000;
        let mut many: Vec<gen::Ac> = (0..n).map(|i| gen::aircraft(rng, base + 1 + i as u32)).collect();
        let kind = *rng.pick(&[Kind::Df11, Kind::AirPos, Kind::Df4]);
        let tag = format!("{:?}", kind).to_lowercase();
        let mut ops = vec![];
        let mut done = 0;
        while done < n { let k = (n - done).min(512); ops.push(Op::Data { dt_us: 0, bytes: crate::script::Bytes(gen::blob_of(rng, &mut many[done..done + k], k, kind)), tag: tag.clone() }); done += k; }
        for _ in 0..3 { ops.push(Op::Data { dt_us: 2_000_000, bytes: crate::script::Bytes(gen::blob_of(rng, &mut many[..1], 1, kind)), tag: tag.clone() }); }
        let script = Script::file(vec!["--delete-after=600".into(), "--count-df".into(), "--update=0".into()], ops);
        return Case { property: "C16".into(), mode: "many-aircraft".into(), script, args_b: None, log_level_b: None, meta: serde_json::Value::Null };
    }
    if idx % 4000 == 7 {
        // one very long single-format stream: counts beyond 16 bits; the only refresh comes at the end
        let addrs = gen::addresses(rng, 2);
        let mut acs: Vec<gen::Ac> = addrs.iter().map(|&a| gen::aircraft(rng, a)).collect();
        let kind = *rng.pick(&[Kind::Df11, Kind::AirPos, Kind::Df4]);
        let total = if (idx / 4000) % 2 == 1 { 100_001 + rng.range(0, 2_000) as usize } else { 65_530 + rng.range(0, 40) as usize };
        let mut lines: Vec<(i64, Vec<u8>, String)> = vec![];
        let tag = format!("{:?}", kind).to_lowercase();
        for i in 0..total {
            let f = gen::frame(rng, &mut acs[i % 2], kind, true);
            lines.push((0, gen::line_of(rng, &f, false), tag.clone()));
        }
        for _ in 0..3 {
            let f = gen::frame(rng, &mut acs[0], kind, true);
            lines.push((2_000_000, gen::line_of(rng, &f, false), tag.clone()));
        }
        let mut ops = vec![];
        // fixed-size groups keep the op count low; the last three lines get their own reads
        let tail = lines.split_off(total);
        for chunk in lines.chunks(512) { ops.push(Op::Data { dt_us: 0, bytes: crate::script::Bytes(chunk.iter().flat_map(|l| l.1.clone()).collect()), tag: tag.clone() }); }
        ops.extend(gen::ops_of(rng, tail, Chunking::Line));
        let script = Script::file(vec!["--delete-after=600".into(), "--count-df".into(), "--update=0".into()], ops);
        return Case { property: "C16".into(), mode: "long".into(), script, args_b: None, log_level_b: None, meta: serde_json::Value::Null };
    }
    let long = rng.chance(0.02);
    // now and then the stream visits every one of the 32 downlink formats (a long counter line)
    let all_formats = !long && rng.chance(0.03);
    let mut next_df = 0u64;
    if rng.chance(0.08) { args.push(format!("--display-info={}", rng.pick(&["Q", "aQ", "Qe"]))); }
    gen::add_neutral_options(rng, &mut args, false, false);
    let n = if long || (tier == Tier::Thorough && rng.chance(0.05)) { rng.range(270, 700) } else if all_formats { rng.range(50, 110) } else { rng.range(3, 60) } as usize;
    let mut lines: Vec<(i64, Vec<u8>, String)> = vec![];
    let mono = *rng.pick(&[Kind::Df11, Kind::AirPos, Kind::Df4, Kind::Df20(gen::Reg::B20)]);
    for _ in 0..n {
        if long && rng.chance(0.9) {
            // a long stream dominated by one format: counts beyond 255
            let a = rng.below(n_ac as u64) as usize;
            let f = gen::frame(rng, &mut acs[a], mono, true);
            lines.push((if upd > 0 { 400_000 } else { 0 }, gen::line_of(rng, &f, false), format!("{:?}", mono).to_lowercase()));
            continue;
        }
        let a = rng.below(n_ac as u64) as usize;
        if all_formats && rng.chance(0.7) {
            let df = next_df % 32;
            next_df += 1;
            let f = match df {
                0 => gen::frame(rng, &mut acs[a], Kind::Df0, true), 4 => gen::frame(rng, &mut acs[a], Kind::Df4, true), 5 => gen::frame(rng, &mut acs[a], Kind::Df5, true),
                11 => gen::frame(rng, &mut acs[a], Kind::Df11, true), 16 => gen::frame(rng, &mut acs[a], Kind::Df16, true), 17 => gen::frame(rng, &mut acs[a], Kind::Ident, true),
                18 => gen::frame(rng, &mut acs[a], Kind::Df18, true), 20 => gen::frame(rng, &mut acs[a], Kind::Df20(gen::Reg::B20), true), 21 => gen::frame(rng, &mut acs[a], Kind::Df21(gen::Reg::B20), true),
                other => gen::other_df_frame(rng, &acs[a], other),
            };
            lines.push((if upd > 0 { 400_000 } else { 0 }, gen::line_of(rng, &f, false), format!("df{}", df)));
            continue;
        }
        let dt = if upd > 0 { *rng.pick(&[0i64, 300_000, 999_999, 1_000_000, 1_000_001, (upd + 1) * 1_000_000, upd * 1_000_000 + 999_999]) } else { gen::gap_us(rng, d).min(2_000_000) };
        let (b, tag): (Vec<u8>, String) = match rng.below(12) {
            0 => { let k = *rng.pick(gen::JUNK_KINDS); (gen::junk(rng, k), format!("junk:junk-{}", k)) }
            1 => {
                let mut z = gen::aircraft(rng, 0);
                let k = *rng.pick(&[Kind::Df11, Kind::Df4, Kind::Ident, Kind::Df20(gen::Reg::B20)]);
                let f = gen::frame(rng, &mut z, k, true);
                (gen::line_of(rng, &f, false), "zero-address".into())
            }
            2 => {
                let k = *rng.pick(&[Kind::Df11, Kind::Ident, Kind::AirPos, Kind::Df18]);
                let mut f = gen::frame(rng, &mut acs[a], k, true);
                let nb = f.len() * 8;
                modes::flip_bit(&mut f, rng.range(9, nb as i64) as usize);
                if modes::syndrome(&f) >> 7 == 0 { modes::flip_bit(&mut f, 33.min(nb)); }
                (gen::line_of(rng, &f, false), "corrupt:bitflip-1".into())
            }
            3 => { let f = gen::frame(rng, &mut acs[a], Kind::OtherDf, false); (gen::line_of(rng, &f, false), "otherdf".into()) }
            4 => {
                let f = gen::frame(rng, &mut acs[a], Kind::AirPos, true);
                (format!("{}\n", &modes::to_hex(&f)[..14]).into_bytes(), "junk:len-df-mismatch".into())
            }
            _ => { let k = *rng.pick(gen::COMMON_KINDS); let f = gen::frame(rng, &mut acs[a], k, false); let deco = rng.chance(0.2); (gen::line_of(rng, &f, deco), format!("{:?}", k).to_lowercase()) }
        };
        lines.push((dt, b.clone(), tag.clone()));
        if rng.chance(0.1) { lines.push((0, b, format!("{}:duplicate", tag.split(':').next().unwrap_or("")))); }
    }
    // the feed stays connected but silent for about delete_after seconds (or much longer) once or twice
    if lines.len() >= 2 && rng.chance(0.12) {
        for _ in 0..rng.range(1, 2) {
            let i = rng.range(1, lines.len() as i64 - 1) as usize;
            lines[i].0 = match rng.below(4) { 0 => d * 1_000_000, 1 => d * 1_000_000 + rng.range(1, 2_000_000), 2 => 3 * d * 1_000_000, _ => rng.range(d * 1_000_000, 2 * d * 1_000_000) };
            lines[i].2 = format!("{}:after-silence", lines[i].2.split(':').next().unwrap_or(""));
            // sometimes one frame arrives in the middle of the silence
            if rng.chance(0.4) && i >= 1 { let half = lines[i].0 / 2; lines[i].0 -= half; lines[i - 1].0 = half; }
        }
    }
    gen::long_uptime(rng, &mut lines, 0.03);
    gen::near_time_boundary(rng, &mut lines, 0.02);
    let ch = *rng.pick(&[Chunking::Line, Chunking::Line, Chunking::Line, Chunking::Pieces, Chunking::Multi]);
    let mut script = Script::file(args, vec![]);
    script.tcp = rng.chance(0.3);
    if script.tcp && rng.chance(0.5) {
        // two connections: counters belong to a connection (observation, see DESIGN.md)
        let cut = rng.below(lines.len() as u64 + 1) as usize;
        let rest = lines.split_off(cut);
        let mut ops = gen::ops_of(rng, lines, ch);
        ops.push(Op::Eof { dt_us: 0 });
        script.conns = vec![Conn::Accept { ops }, Conn::Accept { ops: gen::ops_of(rng, rest, ch) }];
    } else {
        script.conns = vec![Conn::Accept { ops: gen::ops_of(rng, lines, ch) }];
    }
    Case { property: "C16".into(), mode: String::new(), script, args_b: None, log_level_b: None, meta: serde_json::Value::Null }
}

/// Counter lines ("DF0:3 DF17:12 ") printed in `out`, in order.
fn counter_lines(out: &str) -> Vec<&str> {
    out.lines()
        .filter(|l| {
            let t = l.trim_end();
            !t.is_empty() && t.split(' ').all(|tok| tok.strip_prefix("DF").and_then(|r| r.split_once(':')).map(|(a, b)| !a.is_empty() && !b.is_empty() && a.bytes().all(|c| c.is_ascii_digit())).unwrap_or(false))
        })
        .collect()
}

const NINE: [u32; 9] = [0, 4, 5, 11, 16, 17, 18, 20, 21];

fn check(case: &Case, st: &mut Stats) -> Vec<Violation> {
    let h = exec::run(&case.script);
    st.observe(case, &h);
    if let Outcome::Panic(_) | Outcome::Wedge(_) = h.outcome { st.discarded_by_crash += 1; return vec![]; }
    let mut v = vec![];
    let quiet = case.script.args.iter().any(|a| a.starts_with("--display-info=") && a.contains('Q'));
    if !quiet && !h.steps.is_empty() && h.steps.iter().all(|s| s.out.is_empty() && s.pre_out.is_empty()) {
        // not even the start-up legend was seen: printing no longer goes through print!/println!
        return vec![viol("HARNESS.stdout-seam-bypassed", 0, "nothing at all was printed through the stdout seam (not even the legend); the counter line cannot be observed".into(), json!({}))];
    }
    let filter = case.script.filter();
    let with_c = case.script.has_arg("--count-df");
    let d = case.script.delete_after();
    let empty: Arc<Snapshot> = Arc::new(Snapshot::new());
    let mut counts: BTreeMap<u32, u64> = BTreeMap::new();
    let mut other_seen = false; // a frame of a format outside the nine passed: its count is only bounded
    // formats outside the nine: the reference cannot name the address such a frame carries, so "non-zero address"
    // is unknown - but a frame that visibly changed the table was applied (lower bound), and no counter can
    // exceed the number of frame-shaped lines of its format that passed the filter (upper bound)
    let mut other_lo: BTreeMap<u32, u64> = BTreeMap::new();
    let mut other_hi: BTreeMap<u32, u64> = BTreeMap::new();
    let mut cur_conn = usize::MAX;
    let mut compared = 0;
    let mut filtered_seen = 0;
    'steps: for (i, s) in h.steps.iter().enumerate() {
        let before = if i == 0 { &empty } else { &h.steps[i - 1].after };
        if s.conn != cur_conn { counts.clear(); other_lo.clear(); other_hi.clear(); other_seen = false; cur_conn = s.conn; }
        st.state(abstract_state(&s.after, s.t_us, d, if with_c { "c" } else { "-" }, s.tag.split(':').next().unwrap_or("")));
        let mut passing = 0;
        let mut all_filtered_or_rejected = true;
        let mut filtered_here = 0;
        for l in &s.lines {
            let c = refm::classify(l);
            if !c.accepted { continue; }
            if let Some(f) = &filter { if !f.contains(&c.df) { filtered_here += 1; continue; } }
            all_filtered_or_rejected = false;
            passing += 1;
            if c.judged { *counts.entry(c.df).or_insert(0) += 1; } else {
                other_seen = true;
                *other_hi.entry(c.df).or_insert(0) += 1;
                if s.lines.len() == 1 && **before != *s.after { *other_lo.entry(c.df).or_insert(0) += 1; st.probe("other_df_frame_applied"); }
            }
        }
        filtered_seen += filtered_here;
        if filtered_here > 0 { st.probe("filtered_frame_seen"); }
        if s.tag.contains("after-silence") { st.probe("long_silence_inside_connection"); }
        st.oracle_evals += 1;
        // frames outside the filter (and rejected lines) leave table and output untouched
        if all_filtered_or_rejected && !s.lines.is_empty() {
            if **before != *s.after {
                v.push(viol("C16.filtered-effect", i, format!("lines {:?} are all rejected or excluded by -f {:?}, yet the table changed: {}", s.lines.iter().map(|l| crate::script::escape(&l[..l.len().min(44)])).collect::<Vec<_>>(), filter, diff_snap(before, &s.after).join(" | ")), json!({"filtered": filtered_here})));
                break 'steps;
            }
            if !s.out.is_empty() {
                v.push(viol("C16.filtered-effect", i, format!("lines {:?} are all rejected or excluded by -f {:?}, yet {} bytes were printed (a refresh / counter update)", s.lines.iter().map(|l| crate::script::escape(&l[..l.len().min(44)])).collect::<Vec<_>>(), filter, s.out.len()), json!({"filtered": filtered_here, "output": true})));
                break 'steps;
            }
        }
        let cl = counter_lines(&s.out);
        if !with_c {
            if let Some(l) = cl.first() {
                v.push(viol("C16.no-c", i, format!("counter line {:?} printed without -c", l), json!({})));
                break 'steps;
            }
            continue;
        }
        if s.out.contains("\x1b[2J") { st.probe("refresh_printed"); }
        // the last counter line of this step reflects every frame counted so far, provided the
        // last passing frame of the step is the one that triggered the refresh (single passing frame)
        if let Some(line) = cl.last() {
            if passing == 1 || (passing > 1 && case.script.update() < 0 && cl.len() == passing) {
                compared += 1;
                let printed: BTreeMap<u32, String> = line.split_whitespace().filter_map(|t| t.strip_prefix("DF").and_then(|r| r.split_once(':')).map(|(a, b)| (a.parse().unwrap_or(999), b.to_string()))).collect();
                let order: Vec<u32> = line.split_whitespace().filter_map(|t| t.strip_prefix("DF").and_then(|r| r.split_once(':')).and_then(|(a, _)| a.parse().ok())).collect();
                let mut sorted = order.clone();
                sorted.sort();
                if order != sorted {
                    v.push(viol("C16.count", i, format!("counter line {:?} is not in ascending DF order", line), json!({"order": true})));
                    break 'steps;
                }
                for df in NINE {
                    let want = counts.get(&df).copied().unwrap_or(0);
                    let got = printed.get(&df).cloned();
                    let ok = match (&got, want) { (None, 0) => true, (Some(g), w) => g.parse::<u64>().ok() == Some(w) && w > 0, (None, _) => false };
                    if !ok {
                        let delta = got.as_ref().and_then(|g| g.parse::<i64>().ok()).map(|g| g - want as i64);
                        v.push(viol("C16.count", i, format!("counter line {:?}: DF{} shows {:?}, but {} accepted frame(s) of DF{} with non-zero address passed the filter on this connection", line, df, got, want, df), json!({"delta": delta, "df": df})));
                        break 'steps;
                    }
                }
                if !other_seen {
                    if let Some((k, _)) = printed.iter().find(|(k, _)| !NINE.contains(k)) {
                        v.push(viol("C16.count", i, format!("counter line {:?} lists DF{} although no such frame passed", line, k), json!({"phantom_df": k})));
                        break 'steps;
                    }
                } else {
                    let keys: std::collections::BTreeSet<u32> = printed.keys().copied().filter(|k| !NINE.contains(k)).chain(other_lo.keys().copied()).collect();
                    for k in keys {
                        let got = printed.get(&k).and_then(|g| g.parse::<u64>().ok());
                        let (lo, hi) = (other_lo.get(&k).copied().unwrap_or(0), other_hi.get(&k).copied().unwrap_or(0));
                        let shown = got.unwrap_or(0);
                        if shown < lo || shown > hi || (printed.contains_key(&k) && got.is_none()) {
                            v.push(viol("C16.count", i, format!("counter line {:?}: DF{} shows {:?}, but {} frame(s) of DF{} visibly changed the table and {} frame-shaped line(s) of it passed the filter on this connection", line, k, printed.get(&k), lo, k, hi), json!({"other_df": k, "low": shown < lo})));
                            break 'steps;
                        }
                    }
                }
            }
        } else if passing > 0 && case.script.update() < 0 && !case.script.args.iter().any(|a| a.starts_with("--display-info=") && a.contains('Q')) {
            v.push(viol("C16.count", i, format!("with --update=-1 and -c every accepted frame refreshes the display, but no counter line followed {:?}", s.lines.iter().map(|l| crate::script::escape(l)).collect::<Vec<_>>()), json!({"missing": true})));
            break 'steps;
        }
    }
    // non-interference: frames the filter excludes leave no trace at all - the run without them (every other
    // line at the same instant) ends with the same table and the same last counter line
    if v.is_empty() && filtered_seen > 0 && matches!(h.outcome, Outcome::FileOk | Outcome::SimEnd) {
        let f = filter.clone().unwrap_or_default();
        let (without, _) = super::c13::reduced_script(&case.script, &h, &|l| { let c = refm::classify(l); !(c.accepted && !f.contains(&c.df)) });
        let hw = exec::run(&without);
        st.executions += 1;
        if std::mem::discriminant(&hw.outcome) == std::mem::discriminant(&h.outcome) {
            st.probe("compared_with_run_without_excluded_frames");
            if *hw.final_table != *h.final_table {
                v.push(viol("C16.filtered-effect", h.steps.len().saturating_sub(1), format!("the table at the end differs from the table of the same stream without the {} frame(s) that -f {:?} excludes (without -> with): {}", filtered_seen, f, diff_snap(&hw.final_table, &h.final_table).join(" | ")), json!({"replayed": true})));
            } else if with_c {
                let last_line = |hh: &exec::History| hh.steps.iter().rev().find_map(|s| counter_lines(&s.out).last().map(|l| l.to_string()));
                let (a, b) = (last_line(&hw), last_line(&h));
                if a != b && a.is_some() && b.is_some() {
                    v.push(viol("C16.filtered-effect", h.steps.len().saturating_sub(1), format!("the last counter line {:?} differs from {:?}, the last line of the same stream without the frames that -f {:?} excludes", b, a, f), json!({"replayed": true, "output": true})));
                }
            }
        }
    }
    if compared > 0 && (filter.is_none() || filtered_seen > 0) {
        st.nontrivial_runs += 1;
        if st.scripts.len() < crate::stats::MAX_SET { st.scripts.insert(fnv(serde_json::to_string(&case.script).unwrap().as_bytes())); }
    }
    v
}
