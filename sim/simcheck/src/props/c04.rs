//! C04 - squitters with failing parity never change the table.
use super::{viol, Prop, Tier};
use crate::exec::{self, Outcome};
use crate::gen::{self, Chunking, Kind};
use crate::modes;
use crate::refm;
use crate::rng::Rng;
use crate::row::{diff_snap, Snapshot};
use crate::script::{Case, Script, Violation};
use crate::stats::{abstract_state, fnv, Stats};
use serde_json::json;
use std::sync::Arc;

pub fn prop() -> Prop {
    Prop {
        id: "C04",
        gen,
        check,
        quick_runs: 30_000,
        both_profiles: false,
        rule: "a run = multi-aircraft traffic into which the channel injects copies of valid DF11/17/18 squitters hit by an error pattern confined to bits 6..n (run index enumerates all single-bit, all double-bit and all (start,length<=24) burst patterns round-robin, plus heavy random ones) at chosen points of the history (before the aircraft is known, after its first frame, between an even/odd pair, at the sweep edge); -D /dev/null or an unwritable -D target; repeated damaged squitters; a fixed ground-station interrogator code in half of the runs; every 10 000th run index is a stream of 100 010+ clean lines followed by damaged squitters; non-trivial = at least one detectably corrupted squitter was delivered to a non-empty table",
        level_text: "seeded exploration with bit-flip injection on in-flight squitters; oracle: table bit-for-bit unchanged (time stamps included, clock frozen) and no output when the reference CRC-24 syndrome says the frame must be rejected; DF11 with interrogator-code-only syndrome must be applied",
    }
}

/// (class, pattern bits as list of 1-based positions)
fn pattern(rng: &mut Rng, idx: u64, nbits: usize) -> (&'static str, Vec<usize>) {
    let span = nbits - 5; // positions 6..=nbits
    match idx % 5 {
        4 => ("overlay", vec![]), // filled in by the caller: parity field XOR an aircraft address
        x if x > 4 => unreachable!(),
        0 => {
            let k = (idx / 5) as usize % span;
            ("bitflip-1", vec![6 + k])
        }
        1 => {
            // enumerate pairs (a<b) by index
            let npairs = span * (span - 1) / 2;
            let mut k = (idx / 5) as usize % npairs;
            let mut a = 0;
            while k >= span - 1 - a {
                k -= span - 1 - a;
                a += 1;
            }
            ("bitflip-2", vec![6 + a, 6 + a + 1 + k])
        }
        2 => {
            // burst: (start, len) enumerated, interior random, both ends set
            let mut combos = vec![];
            for len in 2..=24usize {
                for start in 6..=(nbits + 1 - len) {
                    combos.push((start, len));
                }
            }
            let (start, len) = combos[(idx / 5) as usize % combos.len()];
            let mut v = vec![start];
            for p in start + 1..start + len - 1 {
                if rng.chance(0.5) { v.push(p); }
            }
            v.push(start + len - 1);
            ("bitflip-burst", v)
        }
        _ => {
            let n = rng.range(3, 40) as usize;
            let mut v: Vec<usize> = (0..n).map(|_| rng.range(6, nbits as i64) as usize).collect();
            v.sort();
            v.dedup();
            ("bitflip-heavy", v)
        }
    }
}

fn gen(rng: &mut Rng, idx: u64, _tier: Tier) -> Case {
    let n_ac = rng.range(1, 3) as usize;
    let addrs = gen::addresses(rng, n_ac);
    let mut acs: Vec<gen::Ac> = addrs.iter().map(|&a| gen::aircraft(rng, a)).collect();
    if idx % 10_000 == 13 {
        // a channel that has been clean for a very long time: more than 100 000 accepted lines in a row, then
        // damaged squitters, one per read
        let total = 100_010 + rng.range(0, 3_000) as usize;
        let kind = *rng.pick(&[Kind::AirPos, Kind::Df11, Kind::Df4]);
        let mut ops = vec![];
        let mut left = total;
        while left > 0 { let k = left.min(4096); ops.push(crate::script::Op::Data { dt_us: 0, bytes: crate::script::Bytes(gen::blob_of(rng, &mut acs, k, kind)), tag: "long-clean".into() }); left -= k; }
        for _ in 0..rng.range(1, 4) {
            let a = rng.below(acs.len() as u64) as usize;
            let k = *rng.pick(&[Kind::Df11, Kind::Ident, Kind::AirPos, Kind::Vel12, Kind::Df18]);
            let mut f = gen::frame(rng, &mut acs[a], k, true);
            let nb = f.len() * 8;
            modes::flip_bit(&mut f, rng.range(9, nb as i64) as usize);
            if modes::syndrome(&f) >> 7 == 0 { modes::flip_bit(&mut f, 20); }
            ops.push(crate::script::Op::Data { dt_us: rng.range(0, 1_000_000), bytes: crate::script::Bytes(gen::line_of(rng, &f, false)), tag: "corrupt:bitflip-after-long-clean".into() });
        }
        let script = Script::file(vec!["--delete-after=600".into(), "--update=1000000".into()], ops);
        return Case { property: "C04".into(), mode: "long-clean".into(), script, args_b: None, log_level_b: None, meta: serde_json::Value::Null };
    }
    let mut args: Vec<String> = vec![];
    if rng.chance(0.8) { args.push("--count-df".into()); args.push("--update=-1".into()); }
    if rng.chance(0.4) { args.push("--use-update-method".into()); }
    if rng.chance(0.3) { args.push("--relaxed".into()); }
    let d = *rng.pick(&[1i64, 5, 60, 600]);
    args.push(format!("--delete-after={}", d));
    // options that must not weaken the check
    if rng.chance(0.15) { for k in [11u32, 17, 18, 4] { if rng.chance(0.8) { args.push(format!("--filter={}", k)); } } }
    if rng.chance(0.15) { args.push(format!("--log-messages={}", rng.pick(&[11u32, 17, 18]))); }
    // a -D log that cannot be written ends the stream at the first accepted frame; until then (and, with TCP,
    // on the next connection) damaged squitters must still leave everything alone
    if rng.chance(0.1) { args.push("--downlink-log=/dev/null".into()); } else if rng.chance(0.05) { args.push("--downlink-log=/dev/full".into()); }
    gen::add_neutral_options(rng, &mut args, false, false);
    let n = rng.range(4, 36) as usize;
    let kinds = [Kind::Df11, Kind::Ident, Kind::AirPos, Kind::AirPos, Kind::Vel12, Kind::Df4, Kind::Df5, Kind::Df0, Kind::SurfPos, Kind::Tc31, Kind::Df18, Kind::Df20(gen::Reg::B20), Kind::Df21(gen::Reg::B50), Kind::Gnss];
    let mut lines: Vec<(i64, Vec<u8>, String)> = vec![];
    // the ground station's interrogator code: the same in every DF11 reply of a run (half of the runs), and
    // one of the error patterns damages a squitter by exactly that code
    let station_iid: Option<u32> = if rng.chance(0.5) { Some(if rng.chance(0.3) { 1 << rng.below(7) } else { rng.range(1, 127) as u32 }) } else { None };
    // corrupted frames at chosen history points
    let n_bad = rng.range(1, 4) as usize;
    let mut bad_at: Vec<usize> = (0..n_bad).map(|_| match rng.below(5) { 0 => 0, 1 => 1, 2 => 11.min(n), 3 => 12.min(n), _ => rng.below(n as u64 + 1) as usize }).collect();
    // a noisy stretch of the channel: dozens of damaged squitters in a row
    if rng.chance(0.04) { let at = rng.below(n as u64 + 1) as usize; for _ in 0..rng.range(18, 45) { bad_at.push(at); } }
    bad_at.sort();
    let mut sub = 0u64;
    for i in 0..=n {
        while bad_at.first() == Some(&i) {
            bad_at.remove(0);
            let a = rng.below(acs.len() as u64) as usize;
            let k = *rng.pick(&[Kind::Df11, Kind::Df11, Kind::Ident, Kind::AirPos, Kind::Vel12, Kind::Vel34, Kind::SurfPos, Kind::Df18, Kind::Df18, Kind::Tc31, Kind::Gnss, Kind::Tc28, Kind::Tc29, Kind::TcOther]);
            // sometimes corrupt the frame of an aircraft nobody has heard of yet
            let ghost_addr = (rng.bits(24) as u32).max(1);
            let mut ghost = gen::aircraft(rng, ghost_addr);
            let ac = if rng.chance(0.2) { &mut ghost } else { &mut acs[a] };
            let mut f = gen::frame(rng, ac, k, true);
            // sometimes the corrupted frame is a copy of the squitter that was delivered just before it
            if rng.chance(0.3) {
                if let Some(prev) = lines.iter().rev().map(|l| crate::refm::classify(&l.1[..l.1.len() - 1])).find(|c| c.frame.is_some()) {
                    if prev.accepted && matches!(prev.df, 11 | 17 | 18) { f = prev.frame.unwrap(); }
                }
            }
            let (class, pos) = pattern(rng, idx.wrapping_mul(3).wrapping_add(sub), f.len() * 8);
            sub += 1;
            for p in &pos { modes::flip_bit(&mut f, *p); }
            let class = if class == "overlay" {
                // a squitter whose parity field is overlaid with an address (its own, or another aircraft's) as if
                // it were an address/parity format - or with a small number
                let n = f.len();
                let pi = ((f[n - 3] as u32) << 16) | ((f[n - 2] as u32) << 8) | f[n - 1] as u32;
                let ov = match rng.below(if station_iid.is_some() { 9 } else { 7 }) { 7 | 8 => station_iid.unwrap_or(1), 0 => modes::get_bits(&f, 9, 32) as u32, 1 => acs[rng.below(acs.len() as u64) as usize].icao, 2 => 0x80 << rng.below(17), 3 => if pi != 0 { pi } else { 0xFFFFFF }, 4 => pi ^ 0xFFFFFF, 5 => pi ^ (modes::get_bits(&f, 9, 32) as u32), _ => rng.range(128, 4000) as u32 };
                f[n - 3] ^= (ov >> 16) as u8; f[n - 2] ^= (ov >> 8) as u8; f[n - 1] ^= ov as u8;
                "bitflip-overlay"
            } else { class };
            let deco = rng.chance(0.3);
            let damaged = gen::line_of(rng, &f, deco);
            lines.push((gen::gap_us(rng, d).min(3_000_000), damaged.clone(), format!("corrupt:{}", class)));
            // the very same damaged frame may be received again at once (a repeater, a second receiver)
            if rng.chance(0.1) { lines.push((if rng.chance(0.7) { 0 } else { rng.range(1, 500_000) }, damaged, format!("corrupt:{}:duplicate", class))); }
        }
        if i == n { break; }
        if rng.chance(0.05) {
            // receivers also emit things that are not frames at all
            let k = *rng.pick(gen::JUNK_KINDS);
            lines.push((0, gen::junk(rng, k), format!("junk:junk-{}", k)));
        }
        let a = rng.below(acs.len() as u64) as usize;
        let k = *rng.pick(&kinds);
        let mut f = gen::frame(rng, &mut acs[a], k, false);
        if let (Kind::Df11, Some(iid)) = (k, station_iid) { f = modes::df11(acs[a].icao, acs[a].ca, iid); }
        // DF11 with a non-zero interrogator code is still a valid squitter
        lines.push((gen::gap_us(rng, d).min(12_000_000), gen::line_of(rng, &f, false), format!("{:?}", k).to_lowercase()));
    }
    gen::long_uptime(rng, &mut lines, 0.03);
    let ch = if rng.chance(0.8) { Chunking::Line } else { Chunking::Pieces };
    // the stream may end without a final newline - and the unterminated last line may be a damaged squitter
    let unterminated = rng.chance(0.25);
    if unterminated {
        if rng.chance(0.6) {
            let a = rng.below(acs.len() as u64) as usize;
            let k = *rng.pick(&[Kind::Df11, Kind::Ident, Kind::AirPos, Kind::Df18]);
            let mut f = gen::frame(rng, &mut acs[a], k, true);
            let nb = f.len() * 8;
            modes::flip_bit(&mut f, rng.range(9, nb as i64) as usize);
            if modes::syndrome(&f) >> 7 == 0 { modes::flip_bit(&mut f, 20); }
            lines.push((0, gen::line_of(rng, &f, false), "corrupt:bitflip-1".into()));
        }
        if let Some(l) = lines.last_mut() { if l.1.ends_with(b"\n") { l.1.pop(); } }
    }
    let mut ops = gen::ops_of(rng, lines, ch);
    let tcp = rng.chance(0.3);
    if unterminated || rng.chance(0.3) { ops.push(crate::script::Op::Eof { dt_us: 0 }); }
    let mut script = Script::file(args, vec![]);
    script.tcp = tcp;
    if tcp && unterminated {
        // a TCP script ends with the simulation, not with EOF: close this connection and open an idle last one
        script.conns = vec![crate::script::Conn::Accept { ops }, crate::script::Conn::Accept { ops: vec![] }];
    } else {
        script.conns = vec![crate::script::Conn::Accept { ops }];
    }
    Case { property: "C04".into(), mode: String::new(), script, args_b: None, log_level_b: None, meta: serde_json::Value::Null }
}

fn check(case: &Case, st: &mut Stats) -> Vec<Violation> {
    let h = exec::run(&case.script);
    st.observe(case, &h);
    if let Outcome::Panic(_) | Outcome::Wedge(_) = h.outcome {
        st.discarded_by_crash += 1;
        return vec![];
    }
    let mut v = vec![];
    let empty: Arc<Snapshot> = Arc::new(Snapshot::new());
    let d = case.script.delete_after();
    let mut nontrivial = false;
    for (i, s) in h.steps.iter().enumerate() {
        let before = if i == 0 { &empty } else { &h.steps[i - 1].after };
        st.state(abstract_state(&s.after, s.t_us, d, if case.script.has_arg("--use-update-method") { "U" } else { "-" }, s.tag.split(':').next().unwrap_or("")));
        if s.lines.len() != 1 { continue; }
        let c = refm::classify(&s.lines[0]);
        let Some(frame) = &c.frame else { continue };
        if !c.len_df_ok || !matches!(c.df, 11 | 17 | 18) { continue; }
        let syn = modes::syndrome(frame);
        if !c.parity_ok {
            st.oracle_evals += 1;
            if !before.is_empty() { nontrivial = true; }
            let class = s.tag.split(':').nth(1).unwrap_or("").to_string();
            let w = json!({"df": c.df, "pattern": class, "syndrome_weight": syn.count_ones(), "table_rows_before": before.len()});
            if **before != *s.after {
                v.push(viol("C04.changed", i, format!("DF{} frame {} with CRC syndrome {:06X} changed the table: {}", c.df, modes::to_hex(frame), syn, diff_snap(before, &s.after).join(" | ")), w));
            } else if !s.out.is_empty() {
                v.push(viol("C04.changed", i, format!("DF{} frame {} with CRC syndrome {:06X} triggered output / counters ({} bytes printed)", c.df, modes::to_hex(frame), syn, s.out.len()), w));
            }
            if before.is_empty() { st.probe("corrupt_before_any_row"); }
            if i == 11 || i == 12 { st.probe("corrupt_at_sweep_edge"); }
        } else if c.df == 11 && syn != 0 && c.accepted {
            // interrogator-code bits only: must be applied
            st.oracle_evals += 1;
            st.probe("df11_nonzero_iid");
            let a = c.addr.unwrap();
            let ok = s.after.get(&a).map(|r| r.timestamp == s.t_us).unwrap_or(false);
            let filtered = case.script.filter().map(|f| !f.contains(&11)).unwrap_or(false);
            let log_unwritable = case.script.arg_val("--downlink-log").map(|p| p == "/dev/full").unwrap_or(false);
            if log_unwritable { st.probe("downlink_log_unwritable"); }
            if !ok && !filtered && d >= 1 && !log_unwritable {
                v.push(viol("C04.iid-rejected", i, format!("DF11 {} whose remainder {:06X} carries only an interrogator code was not applied", modes::to_hex(frame), syn), json!({"df": 11, "iid": syn})));
            }
        }
    }
    if nontrivial {
        st.nontrivial_runs += 1;
        if st.scripts.len() < crate::stats::MAX_SET { st.scripts.insert(fnv(serde_json::to_string(&case.script).unwrap().as_bytes())); }
    }
    v
}
