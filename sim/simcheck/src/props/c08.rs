//! C08 - airborne position is the correct global CPR decode or is left unchanged.
use super::{viol, Prop, Tier};
use crate::exec::{self, Outcome};
use crate::gen::{self, Chunking, Kind};
use crate::modes;
use crate::refm::{self, CprResult};
use crate::rng::Rng;
use crate::row::Snapshot;
use crate::script::{Case, Script, Violation};
use crate::stats::{abstract_state, fnv, Stats};
use serde_json::json;
use std::collections::BTreeMap;
use std::sync::Arc;

pub fn prop() -> Prop {
    Prop {
        id: "C08",
        gen,
        check,
        quick_runs: 24_000,
        both_profiles: false,
        rule: "a run = 1-3 aircraft flying ground-truth trajectories (start points stratified by run index over all 59 NL zones, both sides of each of the 58 transition latitudes at 50 m..2 km, equator, +/-86.9 deg, antimeridian, Greenwich, exact CPR-zero points; <= 300 m displacement between position frames) emitting TC 9-18 squitters of alternating parity interleaved with their other formats and other aircraft; per-aircraft gaps from a mixture weighted on {9, 9.999, 9.999999, 10, 10.000001, 10.001, 11} s; channel drops, duplicates and reorders frames; -U on/off; observer strings with and without blanks; in 8 % of the runs the wall clock is set back once or twice (also between the two frames of a pair); runs may begin after a long uptime or seconds before a midnight / month end / new year / 2^31 s; aircraft may jump; non-trivial = at least one valid pair was decoded and one frame arrived without a valid pair; distinct = distinct scripts",
        level_text: "seeded two-message-protocol simulation with an exact 10 s deadline on the discrete-event clock; oracle: reference pairing state machine + textbook global CPR decode with NL from its defining formula, 20 m tolerance against the encoded ground truth, haversine distance, position fields untouched by every frame that does not complete a valid pair",
    }
}

const M_PER_DEG: f64 = 111_194.9; // 6371 km sphere

fn start_point(rng: &mut Rng, idx: u64) -> (f64, f64) {
    let off = |rng: &mut Rng| (*rng.pick(&[50.0, 120.0, 400.0, 1000.0, 2000.0])) / M_PER_DEG;
    let sign = if rng.chance(0.5) { 1.0 } else { -1.0 };
    let lat = match idx % 8 {
        0 | 1 | 2 => {
            // next to a transition latitude, either side
            let k = 2 + ((idx / 8) % 58) as i32;
            let t = modes::nl_transition(k);
            let o = off(rng);
            sign * (t + if (idx / 8 / 58) % 2 == 0 { o } else { -o })
        }
        3 => {
            // middle of a zone
            let k = 2 + ((idx / 8) % 57) as i32;
            sign * 0.5 * (modes::nl_transition(k) + modes::nl_transition(k + 1))
        }
        4 => sign * off(rng),                                   // equator
        5 => sign * (86.9 - rng.f64() * 0.3),                   // near 87
        6 => *rng.pick(&[12.0, -6.0, 0.0, 30.0, 42.0, 360.0 / 59.0, 2.0 * 360.0 / 59.0, -3.0 * 360.0 / 59.0, 7.0 * 360.0 / 59.0]), // CPR-zero latitudes (even: multiples of 6, odd: multiples of 360/59)
        _ => rng.f64() * 172.0 - 86.0,
    };
    let lon = match rng.below(8) {
        0 => 179.995 - rng.f64() * 0.01,
        1 => -179.995 + rng.f64() * 0.01,
        2 => (rng.f64() - 0.5) * 0.01,
        3 => 0.0,
        _ => rng.f64() * 360.0 - 180.0,
    };
    (lat.clamp(-86.95, 86.95), lon)
}

fn pair_gap(rng: &mut Rng) -> i64 {
    let s = 1_000_000i64;
    match rng.below(16) {
        0..=4 => rng.range(100_000, 2 * s),
        5 => 0,
        6 => 9 * s,
        7 => 9_999_000,
        8 => 9_999_999,
        9 => 10 * s,
        10 => 10_000_001,
        11 => 10_001_000,
        12 => 11 * s,
        13 => { let r = rng.range(8 * s, 12 * s); *rng.pick(&[9_499_999, 9_500_000, 9_500_001, 10_499_999, 10_500_000, r]) }
        14 => rng.range(2 * s, 6 * s),
        _ => rng.range(0, 30 * s),
    }
}

fn gen(rng: &mut Rng, idx: u64, tier: Tier) -> Case {
    let n_ac = rng.range(1, 3) as usize;
    let addrs = gen::addresses(rng, n_ac + 1);
    let dd = *rng.pick(&[600i64, 600, 60, 5]);
    let mut args = vec![format!("--delete-after={}", dd)];
    if rng.chance(0.5) { args.push("--use-update-method".into()); }
    if rng.chance(0.6) {
        let (la, lo) = (rng.f64() * 170.0 - 85.0, rng.f64() * 358.0 - 179.0);
        args.push(match rng.below(5) { 0 => format!("--observer-coord={:.5},{:.5}", la, lo), 1 => format!("--observer-coord= {:.4} , {:.4} ", la, lo), 2 => format!("--observer-coord={:+.3},\t{:+.3}", la, lo), 3 => format!("--observer-coord={:.0},{:.0}", la.signum() * 0.0, lo), _ => format!("--observer-coord={:.0},{:.0}", la, lo) });
    }
    gen::add_neutral_options(rng, &mut args, true, true);
    let mut truth: BTreeMap<String, (f64, f64)> = BTreeMap::new();
    let mut events: Vec<(i64, Vec<u8>, String)> = vec![]; // absolute time
    let n_frames = if tier == Tier::Thorough && rng.chance(0.05) { rng.range(60, 200) } else { rng.range(3, 30) };
    for a in 0..n_ac {
        let mut ac = gen::aircraft(rng, addrs[a]);
        let (lat, lon) = start_point(rng, idx.wrapping_mul(3).wrapping_add(a as u64));
        ac.lat = lat;
        ac.lon = lon;
        let hdg = rng.f64() * std::f64::consts::TAU;
        let parked = rng.chance(0.2); // a hovering / parked-in-the-air aircraft repeats its CPR fields exactly
        let mut t = rng.range(0, 2_000_000);
        let mut odd = rng.chance(0.5);
        for _ in 0..n_frames {
            if rng.chance(0.6) {
                // position squitter
                // very rarely the "aircraft" jumps (a transponder address used by two airframes, a test set, a
                // GNSS glitch): the pair across the jump is inconsistent and skipped by the reference, the pairs
                // after it are ordinary and must be decoded
                if rng.chance(0.02) { let j = rng.bits(32); let (la2, lo2) = start_point(rng, j); ac.lat = la2; ac.lon = lo2; }
                let step_m = if parked { 0.0 } else { rng.f64() * 300.0 };
                ac.lat = (ac.lat + step_m * hdg.cos() / M_PER_DEG).clamp(-86.99, 86.99);
                let coslat = ac.lat.to_radians().cos().max(0.05);
                ac.lon += step_m * hdg.sin() / (M_PER_DEG * coslat);
                if ac.lon >= 180.0 { ac.lon -= 360.0; }
                if ac.lon < -180.0 { ac.lon += 360.0; }
                let (la, lo) = modes::cpr_encode(ac.lat, ac.lon, odd);
                // now and then the barometric altitude is below 0 ft (codes for -1000..-25 ft) or not available
                let alt_code = if rng.chance(0.06) { if rng.chance(0.3) { 0 } else { modes::ac12_q1(rng.range(0, 39) as u64) } } else { modes::ac12_q1(ac.alt_n) };
                let me = modes::me_airborne_pos(rng.range(9, 18) as u64, rng.below(4), rng.below(2), alt_code, rng.below(2), odd as u64, la, lo);
                let f = modes::df17_18(17, ac.icao, ac.ca, me);
                truth.insert(modes::to_hex(&f), (ac.lat, ac.lon));
                events.push((t, f, format!("airpos-{}", if odd { "odd" } else { "even" })));
                if rng.chance(0.85) { odd = !odd; }
                t += pair_gap(rng);
            } else {
                let k = *rng.pick(&[Kind::Ident, Kind::Vel12, Kind::Vel34, Kind::Tc31, Kind::Gnss, Kind::Tc28, Kind::Tc29, Kind::Df11, Kind::Df4, Kind::Df5, Kind::Df0, Kind::Df20(gen::Reg::B20), Kind::Df21(gen::Reg::B50), Kind::Df20(gen::Reg::Random), Kind::Df16]);
                let f = gen::frame(rng, &mut ac, k, false);
                events.push((t, f, format!("{:?}", k).to_lowercase()));
                t += rng.range(0, 1_500_000);
            }
        }
    }
    // a noise aircraft that may do anything, surface squitters included
    if rng.chance(0.5) {
        let mut ac = gen::aircraft(rng, addrs[n_ac]);
        let mut t = 0;
        for _ in 0..rng.range(1, 12) {
            let k = *rng.pick(&[Kind::SurfPos, Kind::AirPos, Kind::Df18, Kind::Ident, Kind::Df11, Kind::Vel12]);
            events.push((t, gen::frame(rng, &mut ac, k, false), format!("noise-{:?}", k).to_lowercase()));
            t += rng.range(0, 6_000_000);
        }
    }
    events.sort_by_key(|e| e.0);
    // channel: drop, duplicate (adjacent or delayed), reorder
    let mut lines: Vec<(i64, Vec<u8>, String)> = vec![];
    let mut prev = 0i64;
    let mut delayed: Vec<(i64, Vec<u8>, String)> = vec![];
    for (t, f, tag) in events {
        delayed.sort_by_key(|e| e.0);
        while delayed.first().map(|e| e.0 <= t).unwrap_or(false) {
            let (dtm, b, tg) = delayed.remove(0);
            lines.push((dtm - prev, b, tg));
            prev = dtm;
        }
        if rng.chance(0.08) { continue; } // lost (leaves a stale opposite-parity slot behind)
        let line = gen::line_of(rng, &f, false);
        if rng.chance(0.05) {
            delayed.push((t + rng.range(100_000, 12_000_000), line, format!("{}:reorder", tag)));
            continue;
        }
        lines.push((t - prev, line.clone(), tag.clone()));
        prev = t;
        if rng.chance(0.06) {
            if rng.chance(0.5) { lines.push((0, line, format!("{}:duplicate", tag))); } else { delayed.push((t + rng.range(100_000, 11_000_000), line, format!("{}:duplicate", tag))); }
        }
    }
    delayed.sort_by_key(|e| e.0);
    for (dtm, b, tg) in delayed { lines.push(((dtm - prev).max(0), b, tg)); prev = prev.max(dtm); }
    gen::clock_steps_back(rng, &mut lines, 0.08);
    gen::long_uptime(rng, &mut lines, 0.03);
    gen::near_time_boundary(rng, &mut lines, 0.06);
    let ch = *rng.pick(&[Chunking::Line, Chunking::Line, Chunking::Line, Chunking::Pieces]);
    let mut script = Script::file(args, vec![]);
    script.tcp = rng.chance(0.25);
    if script.tcp && rng.chance(0.6) && lines.len() >= 2 {
        // the feed reconnects in the middle of the traffic (also between the two frames of a pair)
        let cut = rng.range(1, lines.len() as i64 - 1) as usize;
        let rest = lines.split_off(cut);
        let mut first = gen::ops_of(rng, lines, ch);
        first.push(if rng.chance(0.5) { crate::script::Op::Eof { dt_us: 0 } } else { crate::script::Op::Err { dt_us: 0, kind: "ConnectionReset".into() } });
        script.conns = vec![crate::script::Conn::Accept { ops: first }, crate::script::Conn::Accept { ops: gen::ops_of(rng, rest, ch) }];
    } else {
        script.conns = vec![crate::script::Conn::Accept { ops: gen::ops_of(rng, lines, ch) }];
    }
    let meta = json!({"truth": truth.iter().map(|(k, v)| (k.clone(), json!([v.0, v.1]))).collect::<serde_json::Map<_, _>>()});
    Case { property: "C08".into(), mode: String::new(), script, args_b: None, log_level_b: None, meta }
}

#[derive(Clone, Copy, Default)]
struct Slot { lat: u32, lon: u32, t: i64, set: bool }

pub fn dist_m(a: (f64, f64), b: (f64, f64)) -> f64 {
    refm::haversine_km(a.0, a.1, b.0, b.1) * 1000.0
}

fn check(case: &Case, st: &mut Stats) -> Vec<Violation> {
    let h = exec::run(&case.script);
    st.observe(case, &h);
    if let Outcome::Panic(_) | Outcome::Wedge(_) = h.outcome { st.discarded_by_crash += 1; return vec![]; }
    let mut v = vec![];
    let observer = case.script.arg_val("--observer-coord").map(|s| refm::parse_observer(&s)).unwrap_or(Some((52.66411442720024, -8.622299905360963)));
    let Some(obs) = observer else { return v };
    let empty: Arc<Snapshot> = Arc::new(Snapshot::new());
    let mut slots: BTreeMap<u32, [Slot; 2]> = BTreeMap::new();
    let mut surface_seen: std::collections::BTreeSet<u32> = Default::default();
    let (mut decoded, mut unsupported) = (0, 0);
    let uflag = case.script.has_arg("--use-update-method");
    'steps: for (i, s) in h.steps.iter().enumerate() {
        let before = if i == 0 { &empty } else { &h.steps[i - 1].after };
        st.state(abstract_state(&s.after, s.t_us, case.script.delete_after(), if uflag { "U" } else { "-" }, s.tag.split(':').next().unwrap_or("")));
        for r in s.after.values() {
            if !(-90.0..=90.0).contains(&r.lat.0) || !(-180.0..=180.0).contains(&r.lon.0) {
                v.push(viol("C08.wrong-position", i, format!("row {:06X} shows ({}, {}) - outside [-90,90] x [-180,180]", r.icao, r.lat.0, r.lon.0), json!({"range": true})));
                break 'steps;
            }
        }
        if s.lines.len() != 1 {
            // several lines in one read: keep the reference in step, judge nothing
            for l in &s.lines { track(l, s.t_us, before, &mut slots, &mut surface_seen); }
            continue;
        }
        let l = &s.lines[0];
        let c = refm::classify(l);
        if !c.accepted || !c.judged { 
            if **before != *s.after && !c.accepted {
                // covered by C13/C04; not judged here
            }
            continue;
        }
        let a = c.addr.unwrap();
        let frame = c.frame.as_ref().unwrap();
        let is_pos = c.df == 17 && (9..=18).contains(&modes::get_bits(frame, 33, 37));
        let pos_fields = |r: Option<&crate::row::Row>| r.map(|r| (r.lat, r.lon, r.distance, r.position_timestamp));
        st.oracle_evals += 1;
        // rows of other aircraft never move
        for (k, rb) in before.iter() {
            if *k == a { continue; }
            if let Some(ra) = s.after.get(k) {
                if pos_fields(Some(ra)) != pos_fields(Some(rb)) {
                    v.push(viol("C08.spurious-move", i, format!("position of {:06X} changed on a frame of {:06X}", k, a), json!({"other_aircraft": true})));
                    break 'steps;
                }
            }
        }
        let fresh = !before.contains_key(&a);
        if fresh { slots.remove(&a); }
        if surface_seen.contains(&a) || (c.df == 17 && (5..=8).contains(&modes::get_bits(frame, 33, 37))) || c.df == 18 {
            // surface and airborne frames share the CPR slots; the property is silent on that mix
            track(l, s.t_us, before, &mut slots, &mut surface_seen);
            continue;
        }
        if !is_pos {
            if !fresh && pos_fields(s.after.get(&a)) != pos_fields(before.get(&a)) {
                v.push(viol("C08.spurious-move", i, format!("position fields of {:06X} changed on a DF{} frame that is not an airborne-position squitter ({})", a, c.df, s.tag), json!({"df": c.df})));
                break 'steps;
            }
            continue;
        }
        if s.tag.contains("clock-back") { st.probe("clock_set_back"); }
        let odd = modes::get_bits(frame, 54, 54) as usize;
        let (la, lo) = (modes::get_bits(frame, 55, 71) as u32, modes::get_bits(frame, 72, 88) as u32);
        let e = slots.entry(a).or_default();
        e[odd] = Slot { lat: la, lon: lo, t: s.t_us, set: true };
        let (ev, od) = (e[0], e[1]);
        let both = ev.set && od.set && ev.lat != 0 && ev.lon != 0 && od.lat != 0 && od.lon != 0;
        let gap = (ev.t - od.t).abs();
        if both {
            if gap == 10_000_000 { st.probe("pair_at_exactly_10s"); }
            if gap == 9_999_999 { st.probe("pair_9_999999s"); }
            if gap == 9_999_000 { st.probe("pair_9_999s"); }
        } else if ev.set && od.set { st.probe("cpr_field_zero"); }
        let in_window = gap / 1_000_000 < 10;
        let res = if both && in_window { Some(refm::cpr_global((ev.lat, ev.lon), (od.lat, od.lon), odd == 1)) } else { None };
        let row = s.after.get(&a);
        let Some(row) = row else { continue };
        let old = if fresh { Some((crate::row::F(0.0), crate::row::F(0.0), None, None)) } else { pos_fields(before.get(&a)) };
        let truth = case.meta["truth"].get(modes::to_hex(frame)).and_then(|t| Some((t[0].as_f64()?, t[1].as_f64()?)));
        match res {
            Some(CprResult::Undetermined) => { st.probe("undetermined_skipped"); }
            Some(CprResult::Pos(rlat, rlon)) => {
                let Some(truth) = truth else { continue };
                if dist_m((rlat, rlon), truth) > 20.0 { st.probe("reference_off_truth_skipped"); continue; }
                decoded += 1;
                st.probe("valid_pair");
                st.probe(&format!("valid_pair_nl{:02}{}", modes::nl_formula(rlat), if rlat < 0.0 { "s" } else { "n" }));
                if rlon.abs() > 179.9 { st.probe("antimeridian_pair"); }
                let got = (row.lat.0, row.lon.0);
                let err = dist_m(got, truth);
                if err > 20.0 {
                    let kept_old = Some((row.lat, row.lon)) == old.map(|o| (o.0, o.1));
                    let rule = if kept_old { "C08.stale-not-updated" } else { "C08.wrong-position" };
                    v.push(viol(rule, i, format!("{:06X}: valid even/odd pair {:.6} s apart (newer = {}), encoded position ({:.6}, {:.6}), reference decode ({:.6}, {:.6}), row shows ({:.6}, {:.6}) - {:.0} m off{}", a, gap as f64 / 1e6, if odd == 1 { "odd" } else { "even" }, truth.0, truth.1, rlat, rlon, got.0, got.1, err, if kept_old { " (previous position kept)" } else { "" }), json!({"nl": modes::nl_formula(rlat), "newer_odd": odd == 1, "south": rlat < 0.0, "use_update_method": uflag, "kept_old": kept_old})));
                    break 'steps;
                }
                // distance column
                let want = refm::haversine_km(got.0, got.1, obs.0, obs.1);
                match row.distance {
                    Some(dd) if (dd.0 - want).abs() <= 1e-6 * want.max(1.0) => {}
                    other => {
                        v.push(viol("C08.distance", i, format!("{:06X}: position ({:.6}, {:.6}), observer {:?}: distance column {:?}, great-circle distance {:.6} km", a, got.0, got.1, obs, other.map(|x| x.0), want), json!({})));
                        break 'steps;
                    }
                }
            }
            Some(CprResult::Straddle) | None => {
                if matches!(res, Some(CprResult::Straddle)) { st.probe("zone_straddle"); }
                unsupported += 1;
                if Some((row.lat, row.lon, row.distance, row.position_timestamp)) != old {
                    let why = if !both { "no complete even/odd pair (a slot is missing or a CPR field is 0)".to_string() } else if !in_window { format!("the even and odd frames are {:.6} s apart (>= 10 s)", gap as f64 / 1e6) } else { "the pair straddles two latitude zones".to_string() };
                    v.push(viol("C08.unsupported-position", i, format!("{:06X}: {}; yet the position fields changed from {:?} to ({}, {}, {:?})", a, why, old.map(|o| (o.0 .0, o.1 .0, o.2.map(|x| x.0))), row.lat.0, row.lon.0, row.distance.map(|x| x.0)), json!({"both": both, "in_window": in_window, "gap_us": gap, "use_update_method": uflag})));
                    break 'steps;
                }
            }
        }
    }
    if decoded > 0 && unsupported > 0 {
        st.nontrivial_runs += 1;
        if st.scripts.len() < crate::stats::MAX_SET { st.scripts.insert(fnv(serde_json::to_string(&case.script).unwrap().as_bytes())); }
    }
    v
}

/// Keeps the reference slots in step for lines that are not judged.
fn track(l: &[u8], t_us: i64, before: &Snapshot, slots: &mut BTreeMap<u32, [Slot; 2]>, surface_seen: &mut std::collections::BTreeSet<u32>) {
    let c = refm::classify(l);
    if !c.accepted || !c.judged { return; }
    let a = c.addr.unwrap();
    let f = c.frame.as_ref().unwrap();
    if !before.contains_key(&a) { slots.remove(&a); }
    if c.df == 18 { surface_seen.insert(a); return; }
    if c.df != 17 { return; }
    let tc = modes::get_bits(f, 33, 37);
    if (5..=8).contains(&tc) { surface_seen.insert(a); }
    if (9..=18).contains(&tc) {
        let odd = modes::get_bits(f, 54, 54) as usize;
        let e = slots.entry(a).or_default();
        e[odd] = Slot { lat: modes::get_bits(f, 55, 71) as u32, lon: modes::get_bits(f, 72, 88) as u32, t: t_us, set: true };
    }
}
