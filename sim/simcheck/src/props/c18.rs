//! C18 - TCP feed interruptions never stop decoding or lose the table.
use super::{viol, Prop, Tier};
use crate::exec::{self, Outcome, SeamEv, StepKind};
use crate::gen::{self, Chunking, Kind};
use crate::modes;
use crate::refm::{self, Expiry};
use crate::rng::Rng;
use crate::row::{diff_fields, Snapshot};
use crate::script::{Bytes, Case, Conn, Op, Script, Violation};
use crate::stats::{abstract_state, fnv, Stats};
use serde_json::json;
use std::sync::Arc;

pub fn prop() -> Prop {
    Prop {
        id: "C18",
        gen,
        check,
        quick_runs: 16_000,
        both_profiles: false,
        rule: "a run = a TCP script: traffic on a first connection, then a fault sequence of length 0-12 over {refuse (refused/timed out/unreachable), accept+close, accept+frames+close, accept+partial line (cut at any digit offset, often exactly 14) +reset/timeout/broken pipe, accept+junk bytes, EINTR}, in 8 % of the runs a session that turns to noise (frames, then 30-90 malformed lines in a row, then it drops), then a healthy connection with fresh traffic (a quarter open with a malformed line, 5 % carry a run of 30-90 malformed lines between their frames); refusal pauses are simulated (5 s each) so some aircraft must survive the interruption and some must expire; -f subsets incl. filters that let nothing of a connection through; the wall clock may be set back between two refused attempts; non-trivial = at least one fault connection and one frame on the final healthy connection; distinct = distinct scripts",
        level_text: "seeded search over TCP fault sequences with simulated retry pauses; oracle: reader never returns or panics, healthy connection is read to its end and its frames are applied, retry pause after a refused attempt is 3..8 s, rows heard within delete_after survive every interruption unchanged, partial last lines that are not frames change nothing",
    }
}

fn gen(rng: &mut Rng, _idx: u64, _tier: Tier) -> Case {
    let n_ac = rng.range(2, 4) as usize;
    let addrs = gen::addresses(rng, n_ac + 1);
    let mut acs: Vec<gen::Ac> = addrs.iter().map(|&a| gen::aircraft(rng, a)).collect();
    let d = *rng.pick(&[5i64, 5, 12, 60, 600]);
    let mut args = vec![format!("--delete-after={}", d)];
    if rng.chance(0.4) { args.push("--use-update-method".into()); }
    if rng.chance(0.3) { args.push("--relaxed".into()); }
    if rng.chance(0.3) { args.push("--update=-1".into()); args.push("--count-df".into()); }
    if rng.chance(0.15) { args.push("--downlink-log=/dev/null".into()); }
    if rng.chance(0.1) { args.push(format!("--log-messages={}", rng.pick(&[17u32, 11, 20]))); }
    if rng.chance(0.15) {
        // a format filter: sometimes it lets nothing of a whole connection (or of the whole feed) through
        let nine = [0u32, 4, 5, 11, 16, 17, 18, 20, 21];
        match rng.below(4) {
            0 => args.push(format!("--filter={}", rng.pick(&[1u32, 19, 24, 31]))),
            1 => args.push(format!("--filter={}", rng.pick(&nine))),
            _ => { let mut any = false; for k in nine { if rng.chance(0.5) { args.push(format!("--filter={}", k)); any = true; } } if !any { args.push("--filter=17".into()); } }
        }
    }
    gen::add_neutral_options(rng, &mut args, true, true);
    let kinds = gen::COMMON_KINDS;
    if rng.chance(0.03) {
        // the wall clock is set back while the feed is down: some aircraft were last heard long before the
        // drop (expired by the time the feed is back), others right before it (their last contact then lies
        // in the future); the new session brings enough frames of a newcomer for a sweep
        let n_old = rng.range(1, 4) as usize;
        let n_new = rng.range(1, 4) as usize;
        let many = gen::addresses(rng, n_old + n_new + 1);
        let mut fleet: Vec<gen::Ac> = many.iter().map(|&a| gen::aircraft(rng, a)).collect();
        let s = 1_000_000i64;
        let mut first: Vec<(i64, Vec<u8>, String)> = vec![];
        for i in 0..n_old { let k = *rng.pick(&[Kind::Df11, Kind::Ident, Kind::AirPos, Kind::Df4]); let f = gen::frame(rng, &mut fleet[i], k, true); first.push((rng.range(0, 200_000), gen::line_of(rng, &f, false), "old".into())); }
        for i in 0..n_new { let k = *rng.pick(&[Kind::Df11, Kind::Ident, Kind::AirPos, Kind::Df4]); let f = gen::frame(rng, &mut fleet[n_old + i], k, true); first.push((if i == 0 { (d + rng.range(20, 40)) * s } else { rng.range(0, 200_000) }, gen::line_of(rng, &f, false), "recent".into())); }
        let mut ops = gen::ops_of(rng, first, Chunking::Line);
        ops.push(if rng.chance(0.5) { Op::Eof { dt_us: 0 } } else { Op::Err { dt_us: 0, kind: "ConnectionReset".into() } });
        let mut conns = vec![Conn::Accept { ops }];
        let refusals = rng.range(2, 3);
        for i in 0..refusals {
            let back = if i + 1 == refusals { -(rng.range(5 * refusals + 2, 5 * refusals + 18) * s) } else { 0 };
            conns.push(Conn::Refuse { kind: "ConnectionRefused".into(), dt_us: back });
        }
        let newcomer = n_old + n_new;
        let mut second: Vec<(i64, Vec<u8>, String)> = vec![];
        for _ in 0..rng.range(12, 26) { let k = *rng.pick(&[Kind::Df11, Kind::AirPos, Kind::Df4, Kind::Vel12]); let f = gen::frame(rng, &mut fleet[newcomer], k, true); second.push((rng.range(0, 100_000), gen::line_of(rng, &f, false), "newcomer".into())); }
        conns.push(Conn::Accept { ops: gen::ops_of(rng, second, Chunking::Line) });
        let mut script = Script::file(args, vec![]);
        script.tcp = true;
        script.conns = conns;
        return Case { property: "C18".into(), mode: "clock-back-during-outage".into(), script, args_b: None, log_level_b: None, meta: serde_json::Value::Null };
    }
    let mut conns: Vec<Conn> = vec![];
    let chunk = |rng: &mut Rng| *rng.pick(&[Chunking::Line, Chunking::Line, Chunking::Pieces, Chunking::Multi]);
    // leading refusals
    while rng.chance(0.2) { conns.push(Conn::Refuse { kind: "ConnectionRefused".into(), dt_us: 0 }); }
    // first connection: learn some aircraft (not the last one: it only appears after the faults)
    let n0 = rng.range(1, 25) as usize;
    let mut t0 = gen::traffic(rng, &mut acs[..n_ac], n0, d, kinds, false, true, 4_000_000);
    gen::long_uptime(rng, &mut t0, 0.03);
    let c0 = chunk(rng);
    let mut ops = gen::ops_of(rng, t0, c0);
    end_badly(rng, &mut ops, &mut acs);
    conns.push(Conn::Accept { ops });
    // fault sequence
    let n_faults = if rng.chance(0.1) { rng.range(8, 12) } else { rng.range(0, 5) };
    for _ in 0..n_faults {
        match rng.below(6) {
            0 | 1 => conns.push(Conn::Refuse { kind: rng.pick(&["ConnectionRefused", "ConnectionRefused", "TimedOut", "HostUnreachable", "NetworkUnreachable", "AddrNotAvailable", "PermissionDenied", "Interrupted", "WouldBlock", "ConnectionReset", "ConnectionAborted", "NotConnected", "InvalidInput", "Other", "NotFound", "AddrInUse", "BrokenPipe", "UnexpectedEof", "LookupFailed", "LookupFailed"]).to_string(), dt_us: 0 }),
            2 => conns.push(Conn::Accept { ops: vec![Op::Eof { dt_us: rng.range(0, 2_000_000) }] }),
            3 => {
                // accept + frames + close
                let n = rng.range(1, 14) as usize;
                let t = gen::traffic(rng, &mut acs[..n_ac], n, d, kinds, false, true, 3_000_000);
                let c = chunk(rng);
                let mut ops = gen::ops_of(rng, t, c);
                ops.push(Op::Eof { dt_us: rng.range(0, 1_000_000) });
                conns.push(Conn::Accept { ops });
            }
            4 => {
                // accept + (frames) + partial line + reset
                let n = rng.range(0, 4) as usize;
                let t = gen::traffic(rng, &mut acs[..n_ac], n, d, kinds, false, true, 3_000_000);
                let mut ops = gen::ops_of(rng, t, Chunking::Line);
                end_badly(rng, &mut ops, &mut acs);
                conns.push(Conn::Accept { ops });
            }
            _ => {
                // accept + junk bytes
                let mut ops = vec![];
                for _ in 0..rng.range(1, 4) {
                    let k = *rng.pick(gen::JUNK_KINDS);
                    let mut b = gen::junk(rng, k);
                    if rng.chance(0.3) { b.pop(); }
                    ops.push(Op::Data { dt_us: rng.range(0, 500_000), bytes: Bytes(b), tag: format!("junk:junk-{}", k) });
                }
                if rng.chance(0.5) { ops.push(Op::Eof { dt_us: 0 }); } else { ops.push(Op::Err { dt_us: 0, kind: rng.pick(&["ConnectionReset", "TimedOut"]).to_string() }); }
                conns.push(Conn::Accept { ops });
            }
        }
    }
    // now and then a session turns to noise: some frames, then a long run of malformed lines, then it drops
    if rng.chance(0.08) {
        let n = rng.range(0, 3) as usize;
        let t = gen::traffic(rng, &mut acs[..n_ac], n, d, kinds, false, true, 1_000_000);
        let mut ops = gen::ops_of(rng, t, Chunking::Line);
        noise_run(rng, &mut ops);
        if rng.chance(0.5) { end_badly(rng, &mut ops, &mut acs); } else { ops.push(Op::Eof { dt_us: 0 }); }
        conns.push(Conn::Accept { ops });
    }
    // very rarely: hundreds of short sessions in one run (session counters, per-session state)
    if rng.chance(0.004) {
        for _ in 0..rng.range(257, 330) {
            let mut ops = vec![];
            if rng.chance(0.3) { let t = gen::traffic(rng, &mut acs[..n_ac], 1, d, kinds, false, false, 100_000); ops = gen::ops_of(rng, t, Chunking::Line); }
            ops.push(Op::Eof { dt_us: 0 });
            conns.push(Conn::Accept { ops });
        }
    }
    // now and then the feed stays down for a long time: a streak of failed attempts (a growing, shrinking or
    // exhausted retry budget shows only here)
    if rng.chance(0.06) {
        for _ in 0..rng.range(15, 70) { conns.push(Conn::Refuse { kind: rng.pick(&["ConnectionRefused", "TimedOut", "HostUnreachable"]).to_string(), dt_us: 0 }); }
    }
    // the wall clock may be set back while the feed is down (between two refused attempts)
    if rng.chance(0.12) {
        let refused: Vec<usize> = conns.iter().enumerate().filter(|(i, c)| *i > 0 && matches!(c, Conn::Refuse { .. }) && matches!(conns[*i - 1], Conn::Refuse { .. })).map(|(i, _)| i).collect();
        if !refused.is_empty() {
            let at = *rng.pick(&refused);
            let back = match rng.below(10) { 0..=2 => rng.range(1, 999_999), 3..=6 => rng.range(1_000_000, 7_000_000), _ => rng.range(7_000_000, 40_000_000) };
            if let Conn::Refuse { dt_us, .. } = &mut conns[at] { *dt_us = -back; }
        }
    }
    // healthy connection with fresh traffic from everybody, incl. an aircraft never heard before
    let n1 = rng.range(1, 30) as usize;
    let t1 = gen::traffic(rng, &mut acs, n1, d, kinds, false, true, 4_000_000);
    let c1 = chunk(rng);
    let mut ops = gen::ops_of(rng, t1, c1);
    if rng.chance(0.2) { let at = rng.below(ops.len() as u64 + 1) as usize; ops.insert(at, Op::Err { dt_us: 0, kind: "Interrupted".into() }); }
    // the healthy connection may open with a malformed line (the tail of a line whose head went to nobody), and
    // may carry a long run of malformed lines between its frames
    if rng.chance(0.25) {
        let k = *rng.pick(&["hex13", "hex15", "hex27", "text", "blank", "truncated-frame", "at-cut", "semicolon-only"]);
        ops.insert(0, Op::Data { dt_us: 0, bytes: Bytes(gen::junk(rng, k)), tag: format!("junk:junk-{}", k) });
    }
    if rng.chance(0.05) {
        let at = rng.below(ops.len() as u64 + 1) as usize;
        let mut run = vec![];
        noise_run(rng, &mut run);
        for (i, o) in run.into_iter().enumerate() { ops.insert(at + i, o); }
    }
    conns.push(Conn::Accept { ops });
    let mut script = Script::file(args, vec![]);
    script.tcp = true;
    script.conns = conns;
    Case { property: "C18".into(), mode: String::new(), script, args_b: None, log_level_b: None, meta: serde_json::Value::Null }
}

/// 30-90 short malformed lines in a row (one read each, or several per read).
fn noise_run(rng: &mut Rng, ops: &mut Vec<Op>) {
    let n = *rng.pick(&[30i64, 31, 32, 33, 40, 64, 65, 90]);
    let per_read = rng.range(1, 8) as usize;
    let mut buf: Vec<u8> = vec![];
    for i in 0..n as usize {
        let k = *rng.pick(&["hex13", "hex15", "hex27", "hex29", "text", "blank", "empty", "truncated-frame", "at-cut", "at-short", "semicolon-only", "hex-odd"]);
        buf.extend(gen::junk(rng, k));
        if (i + 1) % per_read == 0 || i + 1 == n as usize {
            ops.push(Op::Data { dt_us: rng.range(0, 20_000), bytes: Bytes(std::mem::take(&mut buf)), tag: "junk:junk-noise-run".into() });
        }
    }
}

/// Ends a connection the bad way: partial line then reset / close / timeout.
fn end_badly(rng: &mut Rng, ops: &mut Vec<Op>, acs: &mut [gen::Ac]) {
    let k = *rng.pick(&[Kind::AirPos, Kind::Ident, Kind::Vel12, Kind::Df20(gen::Reg::B20), Kind::Df21(gen::Reg::B50), Kind::Df4, Kind::Df11, Kind::Df16]);
    let f = gen::frame(rng, &mut acs[0], k, false);
    let h = modes::to_hex(&f).into_bytes();
    let cut = if rng.chance(0.35) { 14.min(h.len()) } else { rng.range(1, h.len() as i64) as usize };
    if rng.chance(0.85) {
        let mut b = h[..cut].to_vec();
        if rng.chance(0.2) { b.insert(0, b'*'); }
        // the partial line often arrives in the same read as the complete lines before it
        let merged = rng.chance(0.4) && matches!(ops.last(), Some(Op::Data { .. }));
        if merged {
            if let Some(Op::Data { bytes, tag, .. }) = ops.last_mut() { bytes.0.extend_from_slice(&b); tag.push_str("+partial"); }
        } else {
            ops.push(Op::Data { dt_us: rng.range(0, 1_000_000), bytes: Bytes(b), tag: format!("partial:cut{}", cut) });
        }
    }
    match rng.below(4) {
        0 => ops.push(Op::Eof { dt_us: rng.range(0, 500_000) }),
        1 => ops.push(Op::Err { dt_us: 0, kind: "ConnectionReset".into() }),
        2 => ops.push(Op::Err { dt_us: rng.range(0, 30_000_000), kind: "TimedOut".into() }),
        _ => ops.push(Op::Err { dt_us: 0, kind: rng.pick(&["BrokenPipe", "ConnectionAborted", "UnexpectedEof", "Other", "WouldBlock", "InvalidData", "NotConnected", "PermissionDenied", "OutOfMemory", "Unsupported"]).to_string() }),
    }
}

fn check(case: &Case, st: &mut Stats) -> Vec<Violation> {
    let h = exec::run(&case.script);
    st.observe(case, &h);
    let mut v = vec![];
    let last = h.steps.len().saturating_sub(1);
    let d = case.script.delete_after();
    // safety: the decoder never terminates by itself
    match &h.outcome {
        Outcome::SimEnd => {}
        Outcome::ArgsRejected(_) => return v,
        o => {
            let how = match o { Outcome::Panic(_) => "panic", Outcome::Wedge(_) => "wedge", _ => "returned" };
            let last_ev = h.steps.last().map(|s| format!("{:?} {}", s.kind, s.tag)).unwrap_or_default();
            v.push(viol("C18.terminated", last, format!("TCP source: decoder ended with {:?} after step [{}]; {} scripted ops unread", o, last_ev, h.unread_ops), json!({"how": how, "last_kind": h.steps.last().map(|s| format!("{:?}", s.kind))})));
            return v;
        }
    }
    // pacing after refused attempts
    let connects: Vec<(i64, Option<bool>, usize)> = h.seam.iter().filter_map(|e| match e { SeamEv::Connect { t_us, ok, conn } => Some((*t_us, Some(*ok), *conn)), SeamEv::ConnectEnd { t_us } => Some((*t_us, None, usize::MAX)), _ => None }).collect();
    for w in connects.windows(2) {
        // an attempt at which the wall clock was moved says nothing about the pause before it
        if let Some(Conn::Refuse { dt_us, .. }) = case.script.conns.get(w[1].2) { if *dt_us != 0 { st.probe("clock_set_back_during_outage"); continue; } }
        if w[0].1 == Some(false) {
            st.oracle_evals += 1;
            let gap = w[1].0 - w[0].0;
            if !(3_000_000..=8_000_000).contains(&gap) {
                v.push(viol("C18.pace", last, format!("next connection attempt came {:.3} s after a refused one (expected about 5 s)", gap as f64 / 1e6), json!({"gap_s": gap / 1_000_000})));
                break;
            }
        }
    }
    if h.unread_ops > 0 {
        v.push(viol("C18.no-resume", last, format!("{} scripted ops (incl. the healthy connection) were never read", h.unread_ops), json!({})));
    }
    let mut model = Expiry::new(d);
    let empty: Arc<Snapshot> = Arc::new(Snapshot::new());
    let mut cur_conn = usize::MAX;
    let n_conn = case.script.conns.len();
    let mut healthy_frames = 0;
    let mut fault_conns = 0;
    let mut ever_stale: std::collections::BTreeSet<u32> = Default::default();
    let mut any_unjudged_run = false;
    let filter = case.script.filter();
    let passes = |df: u32| filter.as_ref().map(|f| f.contains(&df)).unwrap_or(true);
    for (i, s) in h.steps.iter().enumerate() {
        let before = if i == 0 { &empty } else { &h.steps[i - 1].after };
        if s.conn != cur_conn {
            if cur_conn != usize::MAX { model.reconnect(); fault_conns += 1; st.probe("reconnect"); }
            cur_conn = s.conn;
        }
        st.state(abstract_state(&s.after, s.t_us, d, if case.script.has_arg("--use-update-method") { "U" } else { "-" }, &format!("{:?}", s.kind)));
        let mut touched: Vec<u32> = vec![];
        let mut any_unjudged = false;
        for l in &s.lines {
            let c = refm::classify(l);
            if c.accepted && !passes(c.df) {
                st.probe("filtered_frame_seen"); // excluded by -f: must change nothing (containment below)
            } else if c.accepted && c.judged {
                let a = c.addr.unwrap();
                // whoever looks expired when a frame is processed may be swept by it (the frame's own aircraft
                // included: an earlier frame of the same read may have done it)
                for (b, _) in model.last.iter() { if model.maybe_stale(*b, s.t_us) { ever_stale.insert(*b); } }
                model.accept(a, s.t_us);
                touched.push(a);
                if s.conn + 1 == n_conn { healthy_frames += 1; }
            } else if c.accepted {
                any_unjudged = true;
            } else if s.kind == StepKind::Eof || s.tag.starts_with("partial") {
                st.probe("partial_line_processed_at_close");
                if refm::hex_digits(l).len() == 14 { st.probe("partial_exactly_14_digits"); }
            }
        }
        for (a, _) in model.last.iter() { if model.maybe_stale(*a, s.t_us) { ever_stale.insert(*a); } }
        if any_unjudged { any_unjudged_run = true; continue; }
        st.oracle_evals += 1;
        if let StepKind::Err(_) = s.kind { if s.dropped_partial.is_some() { st.probe("reset_mid_line"); } }
        // containment: nothing accepted in this step => nothing may change
        if touched.is_empty() && **before != *s.after {
            let what = if s.lines.is_empty() { "no complete line".to_string() } else { format!("only rejected line(s) {:?}", s.lines.iter().map(|l| crate::script::escape(&l[..l.len().min(40)])).collect::<Vec<_>>()) };
            v.push(viol("C18.partial-line", i, format!("step with {} ({:?}, tag {}) changed the table: {}", what, s.kind, s.tag, crate::row::diff_snap(before, &s.after).join(" | ")), json!({"kind": format!("{:?}", s.kind)})));
            break;
        }
        // liveness: accepted frames are in the table, stamped with their processing time
        for a in &touched {
            match s.after.get(a) {
                Some(r) if r.timestamp == s.t_us => {}
                other => {
                    if d >= 1 {
                        v.push(viol("C18.no-resume", i, format!("accepted frame of {:06X} on connection {} was not applied (row {:?})", a, s.conn, other.map(|r| r.timestamp - exec::T0_US)), json!({"conn_is_last": s.conn + 1 == n_conn})));
                    }
                }
            }
        }
        // retention
        for a in model.must_be_present(s.t_us) {
            if !s.after.contains_key(&a) {
                v.push(viol("C18.table-lost", i, format!("aircraft {:06X}, last heard {:.3} s ago (< {} s), is no longer in the table after a step on connection {}", a, (s.t_us - model.last[&a]) as f64 / 1e6, d, s.conn), json!({"first_step_of_conn": i == 0 || h.steps[i - 1].conn != s.conn})));
                break;
            }
        }
        for (a, rb) in before.iter() {
            if touched.contains(a) { continue; }
            match s.after.get(a) {
                Some(ra) if ra != rb => {
                    v.push(viol("C18.table-lost", i, format!("row {:06X} changed although no frame of it was processed: {}", a, diff_fields(rb, ra).join("; ")), json!({"changed": true})));
                }
                None if !model.is_stale(*a, s.t_us) => {} // reported above
                _ => {}
            }
        }
        if !v.is_empty() { break; }
    }
    // what was learned survives: the row of an aircraft that never looked expired equals its row after the very
    // same lines, delivered at the very same instants over a single healthy connection (no fault in between)
    if v.is_empty() && fault_conns > 0 && !any_unjudged_run && matches!(h.outcome, Outcome::SimEnd) {
        let mut ops = vec![];
        let mut prev = exec::T0_US;
        for s in &h.steps {
            if s.lines.is_empty() { continue; }
            let mut b = vec![];
            for l in &s.lines { b.extend_from_slice(l); b.push(b'\n'); }
            ops.push(Op::Data { dt_us: s.t_us - prev, bytes: Bytes(b), tag: "replayed".into() });
            prev = s.t_us;
        }
        let mut healthy = case.script.clone();
        healthy.conns = vec![Conn::Accept { ops }];
        let hh = exec::run(&healthy);
        st.executions += 1;
        if matches!(hh.outcome, Outcome::SimEnd) {
            for (a, r_faulty) in h.final_table.iter() {
                if ever_stale.contains(a) || model.maybe_stale(*a, h.end_t_us) { continue; }
                if let Some(r_healthy) = hh.final_table.get(a) {
                    st.probe("row_compared_with_fault_free_replay");
                    if r_faulty != r_healthy {
                        v.push(viol("C18.table-lost", last, format!("row {:06X} after the interrupted feed differs from its row after the same lines over one healthy connection (healthy -> interrupted): {}", a, diff_fields(r_healthy, r_faulty).join("; ")), json!({"replayed": true})));
                        break;
                    }
                }
            }
        }
    }
    if fault_conns > 0 && healthy_frames > 0 {
        st.nontrivial_runs += 1;
        if st.scripts.len() < crate::stats::MAX_SET { st.scripts.insert(fnv(serde_json::to_string(&case.script).unwrap().as_bytes())); }
    }
    v
}
