//! C19 - presentation options never change what is decoded; -U is decode-neutral.
use super::{viol, Prop, Tier};
use crate::carried::norm_ais;
use crate::exec::{self, History, Outcome};
use crate::gen::{self, Chunking, Kind};
use crate::rng::Rng;
use crate::row::{diff_fields, Row};
use crate::script::{Case, Script, Violation};
use crate::stats::{abstract_state, fnv, Stats};
use serde_json::json;

pub fn prop() -> Prop {
    Prop {
        id: "C19",
        gen,
        check,
        quick_runs: 12_000,
        both_profiles: false,
        rule: "a run = one simulated world executed twice under identical input, arrival times and clocks: (presentation) any traffic incl. channel faults, option sets differing only in -i, -o, -c, -u, -M (one or two formats), -D, log level (stand-in for -l) or -O, in 30 % of the runs under a -f list common to both executions; (update-method) histories of DF4/5/11/17 frames whose carried values are all valid, with and without -U; non-trivial = both executions applied at least two frames and (update-method) at least one existing row was updated; distinct = distinct (script, second option vector) pairs",
        level_text: "seeded differential simulation, only meaningful under deterministic replay: row-by-row equality of the tables after every event between the two executions (every field for presentation options, every field but distance for -O; callsign, altitude, squawk, position, ground speed, track, vertical rate, category, surveillance status for -U)",
    }
}

fn presentation_opts(rng: &mut Rng) -> Vec<String> {
    let mut a = vec![];
    if rng.chance(0.5) { let n = rng.range(0, 5); let s: String = (0..n).map(|_| *rng.pick(b"aAewsQ") as char).collect(); a.push(format!("--display-info={}", s)); }
    if rng.chance(0.5) { let n = rng.range(0, 4); let s: String = (0..n).map(|_| *rng.pick(b"saAvVNSWEdDcC") as char).collect(); a.push(format!("--order-by={}", s)); }
    if rng.chance(0.5) { a.push("--count-df".into()); }
    if rng.chance(0.6) { a.push(format!("--update={}", rng.pick(&[-1i64, 0, 1, 3, 1000]))); }
    if rng.chance(0.3) { for _ in 0..rng.range(1, 3) { a.push(format!("--log-messages={}", rng.pick(&[17u32, 4, 20, 11, 5, 0, 16, 18, 21]))); } }
    if rng.chance(0.2) { a.push("--downlink-log=/dev/null".into()); }
    if rng.chance(0.15) { a.push(format!("--error-log={}", rng.pick(&["/dev/null", "/dev/full"]))); }
    a
}

fn gen(rng: &mut Rng, idx: u64, tier: Tier) -> Case {
    let d = *rng.pick(&[5i64, 60, 600]);
    let n_ac = rng.range(1, 4) as usize;
    let addrs = gen::addresses(rng, n_ac);
    let mut acs: Vec<gen::Ac> = addrs.iter().map(|&a| gen::aircraft(rng, a)).collect();
    // two aircraft may well use the same callsign and squawk
    let twins = acs.len() > 1 && rng.chance(0.3);
    if twins { acs[1].callsign = acs[0].callsign.clone(); acs[1].sq = acs[0].sq; }
    let n = if tier == Tier::Thorough && rng.chance(0.05) { rng.range(80, 300) } else { rng.range(3, 50) } as usize;
    if idx % 2 == 0 {
        // presentation neutrality
        let mut base = vec![format!("--delete-after={}", d)];
        if rng.chance(0.4) { base.push("--use-update-method".into()); }
        if rng.chance(0.4) { base.push("--relaxed".into()); }
        // a -f list shared by both executions: -M (and the rest) must not change which formats it keeps
        if rng.chance(0.3) { for k in [0u32, 4, 5, 11, 16, 17, 18, 20, 21] { if rng.chance(0.5) { base.push(format!("--filter={}", k)); } } }
        let mut lines = gen::traffic(rng, &mut acs, n, d, gen::COMMON_KINDS, false, true, 12_000_000);
        // channel faults: junk, corruption
        for _ in 0..rng.range(0, 4) {
            let at = rng.below(lines.len() as u64 + 1) as usize;
            let k = *rng.pick(gen::JUNK_KINDS);
            lines.insert(at, (0, gen::junk(rng, k), format!("junk:junk-{}", k)));
        }
        let mut a1 = base.clone();
        a1.extend(presentation_opts(rng));
        let mut a2 = base;
        a2.extend(presentation_opts(rng));
        let with_o = rng.chance(0.3);
        if with_o {
            a1.push(format!("--observer-coord={:.3},{:.3}", rng.f64() * 160.0 - 80.0, rng.f64() * 340.0 - 170.0));
            if rng.chance(0.7) { a2.push(format!("--observer-coord={:.3}, {:.3}", rng.f64() * 160.0 - 80.0, rng.f64() * 340.0 - 170.0)); }
        }
        gen::long_uptime(rng, &mut lines, 0.03);
        gen::near_time_boundary(rng, &mut lines, 0.03);
        let ch = *rng.pick(&[Chunking::Line, Chunking::Line, Chunking::Multi, Chunking::Pieces]);
        let mut script = Script::file(a1, vec![]);
        script.tcp = rng.chance(0.25);
        if script.tcp && rng.chance(0.6) && lines.len() >= 2 {
            let cut = rng.range(1, lines.len() as i64 - 1) as usize;
            let rest = lines.split_off(cut);
            let mut first = gen::ops_of(rng, lines, ch);
            first.push(if rng.chance(0.6) { crate::script::Op::Eof { dt_us: 0 } } else { crate::script::Op::Err { dt_us: 0, kind: "ConnectionReset".into() } });
            let mut conns = vec![crate::script::Conn::Accept { ops: first }];
            if rng.chance(0.3) { conns.push(crate::script::Conn::Refuse { kind: "ConnectionRefused".into(), dt_us: 0 }); }
            conns.push(crate::script::Conn::Accept { ops: gen::ops_of(rng, rest, ch) });
            script.conns = conns;
        } else {
            script.conns = vec![crate::script::Conn::Accept { ops: gen::ops_of(rng, lines, ch) }];
        }
        script.log_level = rng.pick(&["off", "off", "error", "debug"]).to_string();
        let ll2 = rng.pick(&["off", "error", "info", "trace"]).to_string();
        Case { property: "C19".into(), mode: if with_o { "presentation+O".into() } else { "presentation".into() }, script, args_b: Some(a2), log_level_b: Some(ll2), meta: serde_json::Value::Null }
    } else {
        // -U neutrality on DF4/5/11/17 with valid values
        let kinds = [Kind::Df4, Kind::Df5, Kind::Df11, Kind::Ident, Kind::AirPos, Kind::AirPos, Kind::Vel12, Kind::Vel12, Kind::Vel34, Kind::SurfPos, Kind::Gnss, Kind::Tc28, Kind::Tc29, Kind::Tc31];
        let mut base = vec![format!("--delete-after={}", d)];
        if rng.chance(0.3) { base.push("--relaxed".into()); }
        let mut lines = vec![];
        for _ in 0..n {
            let a = rng.below(n_ac as u64) as usize;
            if rng.chance(0.3) { acs[a].alt_n = rng.range(41, 1800) as u64; }
            if rng.chance(0.2) && !twins { acs[a].callsign = gen::callsign(rng); }
            if rng.chance(0.2) { acs[a].sq = [rng.below(8), rng.below(8), rng.below(8), rng.below(8)]; }
            let k = *rng.pick(&kinds);
            let f = gen::frame(rng, &mut acs[a], k, true);
            acs[a].lat = (acs[a].lat + (rng.f64() - 0.5) * 0.004).clamp(-86.0, 86.0);
            acs[a].lon += (rng.f64() - 0.5) * 0.004;
            let dt = gen::gap_us(rng, d).min(if rng.chance(0.1) { 3 * d * 1_000_000 } else { 12_000_000 });
            let line = gen::line_of(rng, &f, false);
            lines.push((dt, line.clone(), format!("{:?}", k).to_lowercase()));
            if rng.chance(0.05) { lines.push((0, line, format!("{:?}:duplicate", k).to_lowercase())); }
        }
        gen::long_uptime(rng, &mut lines, 0.03);
        gen::near_time_boundary(rng, &mut lines, 0.03);
        let ch = *rng.pick(&[Chunking::Line, Chunking::Line, Chunking::Multi]);
        let script = Script::file(base.clone(), gen::ops_of(rng, lines, ch));
        let mut a2 = base;
        a2.push("--use-update-method".into());
        Case { property: "C19".into(), mode: "update-method".into(), script, args_b: Some(a2), log_level_b: None, meta: serde_json::Value::Null }
    }
}

fn decoded_view(r: &Row) -> serde_json::Value {
    json!({
        "callsign": norm_ais(&r.ais), "altitude": r.altitude, "squawk": r.squawk, "lat": r.lat, "lon": r.lon,
        "ground_speed": r.grspeed, "track": r.track, "vertical_rate": r.vrate, "category": [r.category.0, r.category.1],
        "surveillance_status": r.surveillance_status.to_string(),
    })
}

fn compare(mode: &str, ha: &History, hb: &History) -> Option<(usize, String, serde_json::Value)> {
    let n = ha.steps.len().min(hb.steps.len());
    for i in 0..=n {
        let (ta, tb) = if i < n { (&ha.steps[i].after, &hb.steps[i].after) } else { (&ha.final_table, &hb.final_table) };
        let ka: Vec<&u32> = ta.keys().collect();
        let kb: Vec<&u32> = tb.keys().collect();
        if ka != kb {
            return Some((i, format!("different aircraft in the table: {:X?} vs {:X?}", ka, kb), json!({"keys": true})));
        }
        for (k, ra) in ta.iter() {
            let rb = &tb[k];
            match mode {
                "update-method" => {
                    let (va, vb) = (decoded_view(ra), decoded_view(rb));
                    if va != vb {
                        let fields: Vec<String> = va.as_object().unwrap().iter().filter(|(f, x)| vb.get(f.as_str()) != Some(x)).map(|(f, x)| format!("{}: {} (default path) vs {} (-U)", f, x, vb[f.as_str()])).collect();
                        let names: Vec<String> = va.as_object().unwrap().iter().filter(|(f, x)| vb.get(f.as_str()) != Some(x)).map(|(f, _)| f.clone()).collect();
                        let tag = if i < n { ha.steps[i].tag.clone() } else { "end".into() };
                        return Some((i, format!("{:06X} after {}: {}", k, tag, fields.join("; ")), json!({"fields": names, "after_kind": tag.split(':').next().unwrap_or("")})));
                    }
                }
                "presentation+O" => {
                    let mut a = ra.clone();
                    a.distance = rb.distance;
                    if a != *rb { return Some((i, format!("{:06X}: {}", k, diff_fields(&a, rb).join("; ")), json!({}))); }
                }
                _ => {
                    if ra != rb { return Some((i, format!("{:06X}: {}", k, diff_fields(ra, rb).join("; ")), json!({}))); }
                }
            }
        }
    }
    None
}

fn check(case: &Case, st: &mut Stats) -> Vec<Violation> {
    let mut v = vec![];
    let ha = exec::run(&case.script);
    st.observe(case, &ha);
    let mut sb: Script = case.script.clone();
    sb.args = case.args_b.clone().unwrap_or_default();
    if let Some(l) = &case.log_level_b { sb.log_level = l.clone(); }
    let hb = exec::run(&sb);
    st.executions += 1;
    for h in [&ha, &hb] {
        if let Outcome::Panic(_) | Outcome::Wedge(_) | Outcome::ArgsRejected(_) = h.outcome { st.discarded_by_crash += 1; return v; }
    }
    let d = case.script.delete_after();
    for s in &ha.steps { st.state(abstract_state(&s.after, s.t_us, d, &case.mode, s.tag.split(':').next().unwrap_or(""))); }
    st.oracle_evals += ha.steps.len() as u64;
    if ha.steps.len() != hb.steps.len() {
        v.push(viol("C19.presentation", 0, format!("the two executions consumed the feed differently ({} vs {} steps; outcomes {:?} / {:?})", ha.steps.len(), hb.steps.len(), ha.outcome, hb.outcome), json!({"steps": true})));
        return v;
    }
    if let Some((i, msg, w)) = compare(&case.mode, &ha, &hb) {
        let rule = if case.mode == "update-method" { "C19.update-method" } else { "C19.presentation" };
        let diffopts: Vec<&String> = case.script.args.iter().filter(|a| !sb.args.contains(a)).chain(sb.args.iter().filter(|a| !case.script.args.contains(a))).collect();
        v.push(viol(rule, i, format!("option sets {:?} / {:?} (differing in {:?}, log {} / {}): {}", case.script.args, sb.args, diffopts, case.script.log_level, sb.log_level, msg), w));
    }
    let applied = ha.steps.iter().filter(|s| !s.lines.is_empty()).count();
    let updated = ha.steps.windows(2).any(|w| w[1].after.iter().any(|(k, r)| w[0].after.get(k).map(|o| o != r).unwrap_or(false)));
    if applied >= 2 && (case.mode != "update-method" || updated) {
        st.nontrivial_runs += 1;
        if st.scripts.len() < crate::stats::MAX_SET { st.scripts.insert(fnv(format!("{}{:?}", serde_json::to_string(&case.script).unwrap(), case.args_b).as_bytes())); }
    }
    v
}
