//! Shared workload building blocks: aircraft, frames, line decoration, junk
//! catalogue, time gaps, read chunking.
#![allow(dead_code)]
use crate::modes::*;
use crate::rng::Rng;
use crate::script::{Bytes, Op};

#[derive(Clone, Debug)]
pub struct Ac {
    pub icao: u32,
    pub ca: u64,
    pub callsign: String,
    pub sq: [u64; 4],
    pub alt_n: u64,
    pub lat: f64,
    pub lon: f64,
    pub caps: u64,
    pub odd_next: bool,
}

/// Addresses chosen to be adversarially close to each other.
pub fn addresses(rng: &mut Rng, n: usize) -> Vec<u32> {
    let mut out: Vec<u32> = vec![];
    let base = match rng.below(6) {
        0 => 0x000001,
        1 => 0xFFFFFF,
        2 => 0x800000,
        _ => (rng.bits(24) as u32).max(1),
    };
    out.push(base);
    while out.len() < n {
        let b = *rng.pick(&out);
        let cand = match rng.below(7) {
            0 => b ^ (1 << rng.below(24)),                          // one-bit neighbour
            1 => ((b & 0xFF) << 16) | (b & 0xFF00) | (b >> 16),      // byte-swapped
            2 => (b & 0xFFF000) | (rng.bits(12) as u32),             // shared high half
            3 => (b & 0x000FFF) | ((rng.bits(12) as u32) << 12),     // shared low half
            4 => b.wrapping_add(1) & 0xFFFFFF,
            5 => (b << 1 | b >> 23) & 0xFFFFFF,                      // rotated
            _ => rng.bits(24) as u32,
        };
        if cand != 0 && !out.contains(&cand) {
            out.push(cand);
        }
    }
    out
}

const LETTERS: &[u8] = b"ABCDEFGHIJKLMNOPQRSTUVWXYZ0123456789";

pub fn callsign(rng: &mut Rng) -> String {
    let n = rng.range(3, 8) as usize;
    let mut s: Vec<char> = (0..n).map(|_| *rng.pick(LETTERS) as char).collect();
    // now and then a blank (or a character outside the 6-bit alphabet, which is transmitted as a blank)
    // in front of or inside the callsign: "KLM 1023", " N123AB"
    if rng.chance(0.12) { let at = rng.below(s.len() as u64) as usize; s[at] = *rng.pick(&[' ', ' ', '#']); }
    s.into_iter().collect()
}

pub fn aircraft(rng: &mut Rng, icao: u32) -> Ac {
    Ac {
        icao,
        ca: rng.below(8),
        callsign: callsign(rng),
        sq: [rng.below(8), rng.below(8), rng.below(8), rng.below(8)],
        alt_n: rng.range(41, 1800) as u64,
        lat: rng.f64() * 170.0 - 85.0,
        lon: rng.f64() * 360.0 - 180.0,
        caps: CAP_BDS20 | (rng.bits(24) & (CAP_BDS40 | CAP_BDS50 | CAP_BDS60 | CAP_BDS44)),
        odd_next: rng.chance(0.5),
    }
}

#[derive(Clone, Copy, Debug, PartialEq, Eq)]
pub enum Reg {
    B10, B17, B20, B30, B40, B50, B60, Random, Zero,
}

#[derive(Clone, Copy, Debug, PartialEq, Eq)]
pub enum Kind {
    Df0, Df4, Df5, Df11, Df16,
    Ident, SurfPos, AirPos, Vel12, Vel34, Gnss, Tc28, Tc29, Tc31, TcOther,
    Df18,
    Df20(Reg), Df21(Reg),
    /// A format outside the nine of C03 (DF 1-3, 6-10, 12-15, 19, 22-31).
    OtherDf,
}

pub const ALL_KINDS: &[Kind] = &[
    Kind::Df0, Kind::Df4, Kind::Df5, Kind::Df11, Kind::Df16, Kind::Ident, Kind::SurfPos, Kind::AirPos,
    Kind::Vel12, Kind::Vel34, Kind::Gnss, Kind::Tc28, Kind::Tc29, Kind::Tc31, Kind::TcOther, Kind::Df18,
    Kind::Df20(Reg::B10), Kind::Df20(Reg::B17), Kind::Df20(Reg::B20), Kind::Df20(Reg::B30), Kind::Df20(Reg::B40),
    Kind::Df20(Reg::B50), Kind::Df20(Reg::B60), Kind::Df20(Reg::Random), Kind::Df20(Reg::Zero),
    Kind::Df21(Reg::B17), Kind::Df21(Reg::B20), Kind::Df21(Reg::B40), Kind::Df21(Reg::B50), Kind::Df21(Reg::B60),
    Kind::Df21(Reg::Random), Kind::OtherDf,
];

pub fn valid_f40(rng: &mut Rng) -> F40 {
    F40 {
        s_mcp: 1, mcp: rng.range(1, 4094) as u64,
        s_fms: 1, fms: rng.range(1, 4094) as u64,
        s_baro: 1, baro: rng.range(1, 4095) as u64,
        res40_47: 0,
        s_mode: rng.below(2), mode: rng.below(8),
        res52_53: 0,
        s_src: rng.below(2), src: rng.below(4),
    }
}

/// Physically plausible BDS 5,0 within every limit of C10; both turn directions.
pub fn valid_f50(rng: &mut Rng) -> F50 {
    // roll: |roll| <= 50 deg  => magnitude in 45/256 deg steps; two's complement 10 bits
    let roll_steps = rng.range(-280, 280); // 280*45/256 = 49.2
    let roll_steps = if roll_steps == 0 { 3 } else { roll_steps };
    let (roll_sign, roll) = if roll_steps < 0 { (1, (512 + roll_steps) as u64) } else { (0, roll_steps as u64) };
    let trk_raw = rng.range(1, 2047) as u64; // 11 bits: sign + 10
    let gs = rng.range(50, 290) as u64; // *2 kt <= 580
    let tas = (gs as i64 + rng.range(-40, 40)).clamp(1, 250) as u64;
    let tar_steps = { let v = rng.range(-200, 200); if v == 0 { -5 } else { v } };
    let (tar_sign, tar) = if tar_steps < 0 { (1, (512 + tar_steps) as u64) } else { (0, tar_steps as u64) };
    F50 {
        s_roll: 1, roll_sign, roll: if roll == 0 { 1 } else { roll },
        s_trk: 1, trk_sign: trk_raw >> 10, trk: { let m = trk_raw & 0x3FF; if m == 0 { 1 } else { m } },
        s_gs: 1, gs,
        s_tar: 1, tar_sign, tar: if tar == 0 { 1 } else { tar },
        s_tas: 1, tas,
    }
}

pub fn valid_f60(rng: &mut Rng) -> F60 {
    let hdg_raw = rng.range(1, 2047) as u64;
    let rate = |rng: &mut Rng| {
        let v = { let v = rng.range(-180, 180); if v == 0 { 7 } else { v } }; // *32 ft/min <= 5760
        if v < 0 { (1u64, (512 + v) as u64) } else { (0u64, v as u64) }
    };
    let (baro_sign, baro) = rate(rng);
    let (ivv_sign, ivv) = rate(rng);
    F60 {
        s_hdg: 1, hdg_sign: hdg_raw >> 10, hdg: { let m = hdg_raw & 0x3FF; if m == 0 { 1 } else { m } },
        s_ias: 1, ias: rng.range(60, 450) as u64,
        s_mach: 1, mach: rng.range(25, 240) as u64, // *0.004 <= 0.96
        s_baro: 1, baro_sign, baro: if baro == 0 { 1 } else { baro },
        s_ivv: 1, ivv_sign, ivv: if ivv == 0 { 1 } else { ivv },
    }
}

pub fn mb_of(rng: &mut Rng, ac: &Ac, reg: Reg) -> u64 {
    match reg {
        Reg::B10 => mb_bds10(rng.bits(48) & 0xF8_3FFF_FFFF_FF),
        Reg::B17 => mb_bds17(ac.caps),
        Reg::B20 => mb_bds20(pack_callsign(&ac.callsign)),
        Reg::B30 => mb_bds30(rng.bits(48)),
        Reg::B40 => mb_bds40(&valid_f40(rng)),
        Reg::B50 => mb_bds50(&valid_f50(rng)),
        Reg::B60 => mb_bds60(&valid_f60(rng)),
        Reg::Random => rng.bits(56),
        Reg::Zero => 0,
    }
}

/// Well-formed frame of the given kind with correct parity.  `valid` restricts
/// carried values to ones that decode to a value (for C19's -U neutrality).
pub fn frame(rng: &mut Rng, ac: &mut Ac, kind: Kind, valid: bool) -> Vec<u8> {
    let alt13 = |rng: &mut Rng, ac: &Ac| -> u64 {
        if valid || rng.chance(0.8) { ac13_q1(ac.alt_n) } else { let (r, lo) = (rng.bits(13), ac13_q1(rng.below(40))); *rng.pick(&[0u64, 0x1FFF, 0x0010, r, lo]) }
    };
    let id = |ac: &Ac| id13(ac.sq[0], ac.sq[1], ac.sq[2], ac.sq[3]);
    match kind {
        Kind::Df0 => df0(ac.icao, rng.below(2), rng.below(8), rng.below(16), alt13(rng, ac)),
        Kind::Df4 => df4_5(4, ac.icao, rng.below(8), rng.below(32), rng.below(64), alt13(rng, ac)),
        Kind::Df5 => df4_5(5, ac.icao, rng.below(8), rng.below(32), rng.below(64), id(ac)),
        Kind::Df11 => df11(ac.icao, ac.ca, if rng.chance(0.5) { 0 } else { rng.bits(7) as u32 }),
        Kind::Df16 => df16(ac.icao, rng.below(2), rng.below(8), rng.below(16), alt13(rng, ac), rng.bits(56)),
        Kind::Df20(r) => { let mb = mb_of(rng, ac, r); df20_21(20, ac.icao, rng.below(8), rng.below(32), rng.below(64), alt13(rng, ac), mb) }
        Kind::Df21(r) => { let mb = mb_of(rng, ac, r); df20_21(21, ac.icao, rng.below(8), rng.below(32), rng.below(64), id(ac), mb) }
        Kind::OtherDf => {
            let dfs = [1u64, 2, 3, 6, 7, 8, 9, 10, 12, 13, 14, 15, 19, 22, 23, 24, 25, 26, 27, 28, 29, 30, 31];
            let df = *rng.pick(&dfs);
            let long = df >= 16;
            // AA-like field filled with the aircraft address so that the row it lands in is predictable-ish
            let mut f = raw_frame(df, long, ((rng.next() as u128) << 64) | rng.next() as u128, 0);
            set_bits(&mut f, 9, 32, ac.icao as u64);
            seal(&mut f, 0);
            f
        }
        _ => {
            let df = if kind == Kind::Df18 { 18 } else { 17 };
            let sub = if kind == Kind::Df18 {
                *rng.pick(&[Kind::Ident, Kind::AirPos, Kind::Vel12, Kind::SurfPos, Kind::Tc31])
            } else {
                kind
            };
            let me = me_of(rng, ac, sub, valid);
            let ca = if df == 18 { rng.below(8) } else { ac.ca };
            df17_18(df, ac.icao, ca, me)
        }
    }
}

/// A frame of a format outside the nine supported ones, with the given DF (AA-like field = the aircraft address).
pub fn other_df_frame(rng: &mut Rng, ac: &Ac, df: u64) -> Vec<u8> {
    let mut f = raw_frame(df, df >= 16, ((rng.next() as u128) << 64) | rng.next() as u128, 0);
    set_bits(&mut f, 9, 32, ac.icao as u64);
    seal(&mut f, 0);
    f
}

/// `n` newline-terminated lines of one frame kind from the given aircraft, concatenated (a big read).
pub fn blob_of(rng: &mut Rng, acs: &mut [Ac], n: usize, kind: Kind) -> Vec<u8> {
    let mut b = Vec::with_capacity(n * 30);
    let m = acs.len();
    for i in 0..n {
        let f = frame(rng, &mut acs[i % m], kind, true);
        b.extend(to_hex(&f).into_bytes());
        b.push(b'\n');
    }
    b
}

pub fn me_of(rng: &mut Rng, ac: &mut Ac, kind: Kind, valid: bool) -> u64 {
    let nz = |rng: &mut Rng, bits: u32| -> u64 { let v = rng.bits(bits); if v == 0 { 1 } else { v } };
    let vr = |rng: &mut Rng| -> u64 { if valid { rng.range(2, 511) as u64 } else { let r = rng.bits(9); *rng.pick(&[0u64, 1, 2, 511, r]) } };
    match kind {
        Kind::Ident => {
            let tc = rng.range(1, 4) as u64;
            let cs = if valid || rng.chance(0.8) { pack_callsign(&ac.callsign) } else { rng.bits(48) };
            me_ident(tc, rng.below(8), cs)
        }
        Kind::SurfPos => {
            let odd = rng.chance(0.5);
            let (la, lo) = cpr_encode(ac.lat, ac.lon, odd);
            me_surface_pos(rng.range(5, 8) as u64, rng.bits(7), rng.below(2), rng.bits(7), rng.below(2), odd as u64, la, lo)
        }
        Kind::AirPos => {
            let odd = ac.odd_next;
            ac.odd_next = !ac.odd_next;
            let (mut la, mut lo) = cpr_encode(ac.lat, ac.lon, odd);
            if valid {
                la = la.max(1);
                lo = lo.max(1);
            }
            let ac12 = if valid || rng.chance(0.8) { ac12_q1(ac.alt_n) } else { let r = rng.bits(12); *rng.pick(&[0u64, 0xFFF, 0x010, r]) };
            me_airborne_pos(rng.range(9, 18) as u64, rng.below(4), rng.below(2), ac12, rng.below(2), odd as u64, la, lo)
        }
        Kind::Vel12 => {
            let st = rng.range(1, 2) as u64;
            let (vew, vns) = if valid { (rng.range(2, 1023) as u64, rng.range(2, 1023) as u64) } else { { let (r1, r2) = (rng.bits(10), rng.bits(10)); (*rng.pick(&[0u64, 1, 1023, r1]), *rng.pick(&[0u64, 1, 1023, r2])) } };
            me_velocity_gs(st, rng.below(2), vew, rng.below(2), vns, rng.below(2), rng.below(2), vr(rng), rng.below(2), if valid { nz(rng, 7) } else { rng.bits(7) }, rng.bits(5))
        }
        Kind::Vel34 => {
            let st = rng.range(3, 4) as u64;
            me_velocity_as(st, rng.below(2), rng.bits(10), rng.below(2), rng.bits(10), rng.below(2), rng.below(2), vr(rng), rng.below(2), rng.bits(7), rng.bits(5))
        }
        Kind::Gnss => me_raw(rng.range(20, 22) as u64, rng.bits(51)),
        Kind::Tc28 => me_raw(28, rng.bits(51)),
        Kind::Tc29 => me_raw(29, rng.bits(51)),
        Kind::Tc31 => me_raw(31, rng.bits(51)),
        _ => me_raw(*rng.pick(&[0u64, 23, 24, 25, 26, 27, 30]), rng.bits(51)),
    }
}

// ---------------------------------------------------------------- decoration

/// Renders a frame as an input line (with newline) in one of the receiver formats.
pub fn line_of(rng: &mut Rng, frame: &[u8], deco: bool) -> Vec<u8> {
    let mut hex = to_hex(frame);
    if !deco {
        let mut v = hex.into_bytes();
        v.push(b'\n');
        return v;
    }
    if rng.chance(0.3) {
        hex = hex.to_lowercase();
    } else if rng.chance(0.1) {
        // mixed case, digit by digit
        hex = hex.chars().map(|c| if rng.chance(0.5) { c.to_ascii_lowercase() } else { c }).collect();
    }
    let mut s = String::new();
    match rng.below(6) {
        0 => s.push_str(&hex),
        1 | 2 => { s.push('*'); s.push_str(&hex); s.push(';'); }
        3 => { s.push('@'); s.push_str(&format!("{:012X}", rng.bits(48))); s.push_str(&hex); s.push(';'); }
        4 => { s.push_str("  "); s.push_str(&hex); s.push(' '); }
        _ => { s.push_str(&format!("{:012x}", rng.bits(48))); s.push_str(&hex); }
    }
    if rng.chance(0.3) {
        s.push('\r');
    }
    s.push('\n');
    let mut v = s.into_bytes();
    // non-hex decoration *inside* the digit string: blanks, tabs, separators, a stray CR, NUL or 0x1A
    if rng.chance(0.15) {
        for _ in 0..rng.range(1, 4) {
            let at = rng.below(v.len() as u64 - 1) as usize;
            v.insert(at, *rng.pick(&[b' ', b'\t', b',', b':', b'-', b'\r', 0u8, 0x1A, b'x', b'.', b'+', b'g', b'z', b'O', b'_', b'#']));
        }
    }
    v
}

// ---------------------------------------------------------------------- junk

pub const JUNK_KINDS: &[&str] = &[
    "empty", "blank", "text", "hex13", "hex15", "hex27", "hex29", "hex41", "hex-odd", "high-bytes", "nul",
    "lone-cr", "overlong", "utf8-multibyte", "truncated-frame", "semicolon-only", "split-utf8", "pow2-len", "pow2-len", "ctrl-bytes", "ctrl-z", "bom", "overlong-frame-tail", "utf16-bom", "greeting", "at-cut", "lookalike-digit-frame", "letter-for-digit", "at-short", "frame-badutf8-digits",
];

/// A line (with newline) that is unambiguously *not* a frame: its hex-digit
/// count is never 14, 26, 28 or 40.
pub fn junk(rng: &mut Rng, kind: &str) -> Vec<u8> {
    let hexn = |rng: &mut Rng, n: usize| -> Vec<u8> { (0..n).map(|_| b"0123456789ABCDEFabcdef"[rng.below(22) as usize]).collect() };
    let mut v: Vec<u8> = match kind {
        "empty" => vec![],
        "blank" => b"   \t ".to_vec(),
        "text" => b"GET / HTTP/1.1 zzz ok".iter().map(|&c| if c == b'e' || c == b'a' || c == b'c' { b'x' } else { c }).collect(),
        "hex13" => hexn(rng, 13),
        "hex15" => hexn(rng, 15),
        "hex27" => hexn(rng, 27),
        "hex29" => hexn(rng, 29),
        "hex41" => hexn(rng, 41),
        "hex-odd" => { let n = *rng.pick(&[1usize, 2, 7, 12, 16, 25, 30, 39, 42, 56, 64]); hexn(rng, n) }
        "high-bytes" => { let n = if rng.chance(0.3) { rng.range(40, 200) } else { rng.range(1, 40) }; let mut v: Vec<u8> = (0..n).map(|_| if rng.chance(0.15) { *rng.pick(b"xyz -_") } else { rng.range(0x80, 0xFF) as u8 }).collect(); if rng.chance(0.3) { v.insert(0, b'x'); } v }
        "nul" => { let mut x = vec![0u8; rng.range(1, 6) as usize]; x.extend(b"zz"); x.push(0); x }
        "lone-cr" => b"\r".to_vec(),
        "overlong" => { let n = 65537 + rng.below(5000) as usize; let c = *rng.pick(&[b'x', b' ', b'G', 0xFEu8]); vec![c; n] }
        "utf8-multibyte" => "żółć→✈ ünïcödé".as_bytes().to_vec(),
        "truncated-frame" => { let n = *rng.pick(&[3usize, 9, 13, 15, 20, 27]); hexn(rng, n) }
        "semicolon-only" => b"*;".to_vec(),
        // first bytes of a multi-byte sequence, cut
        "split-utf8" => vec![b'*', 0xE2, 0x9C, b';'],
        "ctrl-bytes" => { let n = rng.range(1, 30); (0..n).map(|_| { let c = rng.range(1, 31) as u8; if c == b'\n' { 0x0B } else { c } }).collect() }
        "ctrl-z" => match rng.below(3) { 0 => vec![0x1A], 1 => { let mut x = vec![0x1A]; x.extend(b"qq zz"); x } _ => { let mut x = b"zz".to_vec(); x.push(0x1A); x.extend(b"qq"); x } },
        "utf16-bom" => { let mut x = if rng.chance(0.5) { vec![0xFF, 0xFE] } else { vec![0xFE, 0xFF] }; for _ in 0..rng.range(0, 12) { x.push(*rng.pick(&[0u8, b'*', b'8', b'D', 0x00, b';'])); } x }
        // a valid frame in which one digit is replaced by a non-ASCII character whose code point merely ends
        // in that digit's ASCII value (U+0144 for 'D', U+0131 for '1', U+2041 for 'A' ...): 13 / 27 digits, junk
        "lookalike-digit-frame" => {
            let hex = *rng.pick(&["8D406B902015A678D4D220AA4BDA", "8D40621D58C382D690C8AC2863A7", "5D3982A87C156D", "28001A1B1F0706"]);
            let at = rng.below(hex.len() as u64) as usize;
            let c = hex.as_bytes()[at] as u32;
            let cp = *rng.pick(&[0x0100u32, 0x0200, 0x2000, 0x1F000]) + c;
            let mut s = String::new();
            s.push_str(&hex[..at]);
            s.push(char::from_u32(cp).unwrap_or('x'));
            s.push_str(&hex[at + 1..]);
            s.into_bytes()
        }
        // a valid frame in which one digit was replaced by a letter beyond F, a sign or a look-alike (O for 0,
        // l for 1): one digit short, hence junk - unless digits are parsed with a wider radix or a sign-tolerant parser
        "letter-for-digit" => {
            let hex = *rng.pick(&["8D406B902015A678D4D220AA4BDA", "8D40621D58C382D690C8AC2863A7", "5D3982A87C156D", "28001A1B1F0706", "A0001838300000000000007ADA59"]);
            let at = rng.below(hex.len() as u64) as usize;
            let mut v = hex.as_bytes().to_vec();
            v[at] = *rng.pick(b"gGzZOolI+-_ ");
            v
        }
        // a perfectly valid frame, one byte that is not UTF-8, a few more digits: as a whole 15-25 or 29-39 digits
        "frame-badutf8-digits" => {
            let hex = *rng.pick(&["8D406B902015A678D4D220AA4BDA", "8D40621D58C382D690C8AC2863A7", "5D3982A87C156D", "28001A1B1F0706", "A0001838300000000000007ADA59"]);
            let mut v = hex.as_bytes().to_vec();
            v.push(*rng.pick(&[0xFFu8, 0xC3, 0x80, 0xFE, 0xE2]));
            let n = rng.range(1, 11) as usize;
            v.extend(hexn(rng, n));
            v
        }
        // a time-stamp marker with (almost) nothing behind it
        "at-short" => { let n = rng.range(0, 11) as usize; let mut v = vec![b'@']; v.extend(hexn(rng, n)); if rng.chance(0.5) { v.push(b';'); } v }
        // a time-stamped '@' line cut short: even digit counts that are not frame lengths
        "at-cut" => { let n = *rng.pick(&[16usize, 18, 20, 22, 24, 30, 32, 34, 36, 38, 42, 44]); let mut v = vec![b'@']; v.extend(hexn(rng, n)); v.push(b';'); v }
        // what other services say first when one connects to the wrong port
        "greeting" => rng.pick(&[&b"HTTP/1.1 400 Bad Request"[..], b"SSH-2.0-OpenSSH_9.6", b"220 mx.example.net ESMTP ready", b"* OK IMAP4rev1 ready", b"+OK POP3 ready", b"\xff\xfd\x18\xff\xfd\x20", b"RFB 003.008", b"-ERR unknown", b"{\"jsonrpc\":\"2.0\"}"]).to_vec(),
        "bom" => vec![0xEF, 0xBB, 0xBF, b'*', b';'],
        // a long non-hex filler, two stray digits, and a perfectly valid frame at the very end: as a whole
        // the line has 30 digits and is junk - a reader that cuts long lines would see the frame
        "overlong-frame-tail" => {
            let k = rng.range(7, 17) as u32;
            let n = ((1i64 << k) + rng.range(-2, 2)).max(8) as usize;
            let mut v = b"00".to_vec();
            v.extend(std::iter::repeat(*rng.pick(&[b'x', b' ', b'z'])).take(n));
            v.extend(b"8D40621D58C382D690C8AC2863A7");
            v
        }
        // lengths on and around powers of two (line buffers, caps, chunk sizes), with and without CR
        "pow2-len" => {
            let k = rng.range(5, 17) as u32;
            let n = ((1i64 << k) + rng.range(-3, 3)).max(1) as usize;
            let c = *rng.pick(&[b'x', b'G', b' ', b'-']);
            let mut v = vec![c; n];
            if rng.chance(0.3) { let l = v.len(); v[l - 1] = b'\r'; }
            if rng.chance(0.3) { for b in v.iter_mut().take(13) { *b = b'A'; } }
            v
        }
        _ => b"???".to_vec(),
    };
    // never let the digit count hit a frame length by accident
    let d = crate::refm::hex_digits(&v).len();
    if matches!(d, 14 | 26 | 28 | 40) {
        v.push(b'0');
    }
    v.retain(|&c| c != b'\n');
    v.push(b'\n');
    v
}

// ----------------------------------------------------------------------- time

/// Inter-arrival gap (µs) from a mixture that puts weight on the limits the
/// decoder has: bursts, sub-second, the 10 s pairing window, `d` = delete_after.
pub fn gap_us(rng: &mut Rng, d: i64) -> i64 {
    let s = 1_000_000i64;
    match rng.below(20) {
        0..=4 => 0,
        5..=8 => rng.range(1, 999_999),
        9..=11 => rng.range(900_000, 1_100_000),
        12 => *rng.pick(&[9 * s, 9_999_000, 9_999_999, 10 * s, 10_000_001, 10_001_000, 11 * s]),
        13 => rng.range(2 * s, 12 * s),
        14 => (d - 1).max(0) * s,
        15 => *rng.pick(&[d * s - 1000, d * s - 1, d * s, d * s + 1, d * s + 1000]),
        16 => (d + 1) * s,
        17 => 3 * d * s,
        _ => rng.range(0, 3 * s),
    }
    .max(0)
}

/// The wall clock is set back now and then (NTP step, resumed VM): with probability `p_run` one or two lines
/// of the run arrive at a clock reading *earlier* than the line before (by up to 15 s, or by less than a second).
pub fn clock_steps_back(rng: &mut Rng, lines: &mut [(i64, Vec<u8>, String)], p_run: f64) {
    if lines.len() < 2 || !rng.chance(p_run) { return; }
    for _ in 0..rng.range(1, 2) {
        let i = rng.range(1, lines.len() as i64 - 1) as usize;
        let back = if rng.chance(0.25) { rng.range(1, 999_999) } else { rng.range(1_000_000, 15_000_000) };
        lines[i].0 = -back;
        if !lines[i].2.contains("clock-back") { lines[i].2 = format!("{}:clock-back", lines[i].2); }
    }
}

/// The decoder has been up for a long time when the traffic of the run begins: with probability `p_run` the
/// first line arrives hours, weeks or months after start-up (just past 2^31 / 2^32 ms among the choices).
pub fn long_uptime(rng: &mut Rng, lines: &mut [(i64, Vec<u8>, String)], p_run: f64) {
    if lines.is_empty() || !rng.chance(p_run) { return; }
    let day = 86_400_000_000i64;
    lines[0].0 = match rng.below(6) {
        0 => rng.range(3_600_000_000, day),
        1 => day + rng.range(0, 2_000_000),
        2 => 2_147_483_648_000 + rng.range(0, 5_000_000),
        3 => 4_294_967_296_000 + rng.range(0, 5_000_000),
        4 => rng.range(100, 400) * day,
        _ => rng.range(1, 60) * day,
    };
    lines[0].2 = format!("{}:long-uptime", lines[0].2);
}

/// With probability `p_run` the traffic of the run begins a few seconds before a calendar boundary of the
/// simulated wall clock (which starts at 2023-11-14 22:13:20 UTC): the next midnights, the end of the month,
/// new year, the leap day, 2^31 s - so that what follows straddles it.
pub fn near_time_boundary(rng: &mut Rng, lines: &mut [(i64, Vec<u8>, String)], p_run: f64) {
    if lines.is_empty() || !rng.chance(p_run) { return; }
    let s = 1_000_000i64;
    let boundary_s = match rng.below(8) {
        0..=2 => 6_400 + 86_400 * rng.range(0, 3),   // a midnight
        3 => 1_388_800,                              // 2023-12-01 00:00
        4 => 4_067_200,                              // 2024-01-01 00:00
        5 => 9_164_800,                              // 2024-02-29 00:00
        6 => 447_483_648,                            // 2^31 s
        _ => 6_400 + 86_400 * rng.range(3, 400),
    };
    lines[0].0 = boundary_s * s - rng.range(0, 12 * s);
    lines[0].2 = format!("{}:near-time-boundary", lines[0].2);
}

// ------------------------------------------------------------------- chunking

#[derive(Clone, Copy, Debug, PartialEq, Eq)]
pub enum Chunking {
    /// One read per line (per-line step hook).
    Line,
    /// Random pieces from 1 byte upwards; lines are split anywhere.
    Pieces,
    /// Several lines per read.
    Multi,
}

/// Turns timed lines into feed ops under a chunking policy.  Each element of
/// `lines` is (gap before the line, bytes incl. newline, tag).  When a line is
/// split, its gap is applied before the first piece.
pub fn ops_of(rng: &mut Rng, lines: Vec<(i64, Vec<u8>, String)>, ch: Chunking) -> Vec<Op> {
    let mut ops = vec![];
    match ch {
        Chunking::Line => {
            for (dt, b, tag) in lines {
                ops.push(Op::Data { dt_us: dt, bytes: Bytes(b), tag });
            }
        }
        Chunking::Pieces => {
            for (dt, b, tag) in lines {
                let mut off = 0;
                let mut first = true;
                while off < b.len() {
                    let rest = b.len() - off;
                    let n = if rng.chance(0.4) { rest } else { (rng.below(rest.min(24) as u64) + 1) as usize };
                    // the rest of a line may arrive late (a slow or stalled peer)
                    let late = if !first && rng.chance(0.08) { if rng.chance(0.15) { rng.range(10_100_000, 40_000_000) } else { rng.range(200_000, 3_000_000) } } else { 0 };
                    ops.push(Op::Data { dt_us: if first { dt } else { late }, bytes: Bytes(b[off..off + n].to_vec()), tag: if first { tag.clone() } else if late > 0 { "late-tail".into() } else { String::new() } });
                    first = false;
                    off += n;
                }
            }
        }
        Chunking::Multi => {
            let mut cur: Vec<u8> = vec![];
            let mut cur_dt = 0;
            let mut tags: Vec<String> = vec![];
            for (dt, b, tag) in lines {
                if !cur.is_empty() && (dt > 0 || rng.chance(0.3)) {
                    ops.push(Op::Data { dt_us: cur_dt, bytes: Bytes(std::mem::take(&mut cur)), tag: tags.join("+") });
                    tags.clear();
                    cur_dt = 0;
                }
                if cur.is_empty() {
                    cur_dt = dt;
                }
                cur.extend(b);
                tags.push(tag);
            }
            if !cur.is_empty() {
                ops.push(Op::Data { dt_us: cur_dt, bytes: Bytes(cur), tag: tags.join("+") });
            }
        }
    }
    ops
}

/// Options that must not influence what a property's oracle looks at, added to a run's option vector
/// (an option whose name is already present is left alone).  `allow_update`: `--update` may be varied;
/// `allow_quiet`: the display may be silenced.
pub fn add_neutral_options(rng: &mut Rng, args: &mut Vec<String>, allow_update: bool, allow_quiet: bool) {
    let has = |args: &Vec<String>, name: &str| args.iter().any(|a| a == name || a.starts_with(&format!("{}=", name)));
    if rng.chance(0.15) && !has(args, "--log-messages") {
        for _ in 0..rng.range(1, 2) { args.push(format!("--log-messages={}", rng.pick(&[0u32, 4, 5, 11, 16, 17, 18, 20, 21, 24]))); }
    }
    if rng.chance(0.1) && !has(args, "--downlink-log") { args.push("--downlink-log=/dev/null".into()); }
    if rng.chance(0.2) && !has(args, "--order-by") {
        let n = rng.range(0, 4);
        args.push(format!("--order-by={}", (0..n).map(|_| *rng.pick(b"saAvVNSWEdDcC") as char).collect::<String>()));
    }
    if rng.chance(0.2) && !has(args, "--display-info") {
        let n = rng.range(0, 5);
        let mut s: String = (0..n).map(|_| *rng.pick(b"aAewsQ") as char).collect();
        if !allow_quiet { s = s.replace('Q', ""); }
        args.push(format!("--display-info={}", s));
    }
    if rng.chance(0.15) && !has(args, "--count-df") { args.push("--count-df".into()); }
    if allow_update && rng.chance(0.25) && !has(args, "--update") { args.push(format!("--update={}", rng.pick(&[-1i64, 0, 1, 3, 30, 600, 1_000_000, i64::MAX, i64::MIN, i64::MAX / 1000]))); }
    if rng.chance(0.08) && !has(args, "--error-log") { args.push(format!("--error-log={}", rng.pick(&["/dev/null", "/dev/full"]))); }
    if rng.chance(0.1) && !has(args, "--observer-coord") { args.push(format!("--observer-coord={:.3},{:.3}", rng.f64() * 170.0 - 85.0, rng.f64() * 358.0 - 179.0)); }
}

/// DF20/21 (or DF16) reply whose BDS 3,0 ACAS resolution advisory names `intruder` as the threat
/// (TTI = 01, TID = Mode S address): a frame of one aircraft that mentions another.
pub fn acas_ra_frame(rng: &mut Rng, ac: &Ac, intruder: u32) -> Vec<u8> {
    // MB: BDS 0x30, ARA(14) RAC(4) RAT(1) MTE(1) TTI(2) TID(26)
    let mut mb: u64 = 0x30 << 48;
    mb |= (rng.bits(20) & 0xFFFFF) << 28; // ARA RAC RAT MTE
    mb |= 0b01 << 26;
    mb |= (intruder as u64 & 0xFFFFFF) << 2;
    match rng.below(3) {
        0 => df20_21(20, ac.icao, rng.below(8), rng.below(32), rng.below(64), ac13_q1(ac.alt_n), mb),
        1 => df20_21(21, ac.icao, rng.below(8), rng.below(32), rng.below(64), id13(ac.sq[0], ac.sq[1], ac.sq[2], ac.sq[3]), mb),
        _ => df16(ac.icao, rng.below(2), rng.below(8), rng.below(16), ac13_q1(ac.alt_n), mb),
    }
}

/// Ordinary well-formed traffic: `n` frames from the given aircraft with gaps
/// from the boundary mixture (capped at `max_gap_us`).
pub fn traffic(rng: &mut Rng, acs: &mut [Ac], n: usize, d: i64, kinds: &[Kind], valid: bool, deco: bool, max_gap_us: i64) -> Vec<(i64, Vec<u8>, String)> {
    let mut lines = vec![];
    for _ in 0..n {
        let a = rng.below(acs.len() as u64) as usize;
        let k = *rng.pick(kinds);
        let f = frame(rng, &mut acs[a], k, valid);
        // aircraft move a little between frames
        acs[a].lat = (acs[a].lat + (rng.f64() - 0.5) * 0.002).clamp(-86.0, 86.0);
        acs[a].lon += (rng.f64() - 0.5) * 0.002;
        lines.push((gap_us(rng, d).min(max_gap_us), line_of(rng, &f, deco), format!("{:?}", k).to_lowercase()));
    }
    lines
}

pub const COMMON_KINDS: &[Kind] = &[
    Kind::Df11, Kind::Ident, Kind::AirPos, Kind::AirPos, Kind::Vel12, Kind::Vel34, Kind::Df4, Kind::Df5, Kind::Df0, Kind::Df16,
    Kind::SurfPos, Kind::Tc31, Kind::Gnss, Kind::Tc28, Kind::Tc29, Kind::Df18,
    Kind::Df20(Reg::B17), Kind::Df20(Reg::B20), Kind::Df20(Reg::B40), Kind::Df20(Reg::B50), Kind::Df20(Reg::B60), Kind::Df20(Reg::Random),
    Kind::Df21(Reg::B17), Kind::Df21(Reg::B20), Kind::Df21(Reg::B50), Kind::Df21(Reg::Random),
];
