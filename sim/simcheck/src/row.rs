//! Projection of the decoder's public `Plane` rows into plain comparable values.
use serde::{Deserialize, Serialize};
use squitterator::Plane;
use std::collections::BTreeMap;

fn us(t: &simchrono::DateTime<simchrono::Utc>) -> i64 {
    t.timestamp_micros()
}
fn ous(t: &Option<simchrono::DateTime<simchrono::Utc>>) -> Option<i64> {
    t.as_ref().map(us)
}

/// f64 compared and printed exactly (bit pattern), shown as a number in JSON.
#[derive(Clone, Copy, Debug)]
pub struct F(pub f64);
impl PartialEq for F {
    fn eq(&self, o: &F) -> bool {
        self.0.to_bits() == o.0.to_bits()
    }
}
impl Serialize for F {
    fn serialize<S: serde::Serializer>(&self, s: S) -> Result<S::Ok, S::Error> {
        if self.0.is_finite() { s.serialize_f64(self.0) } else { s.serialize_str(&format!("{}", self.0)) }
    }
}
impl<'de> Deserialize<'de> for F {
    fn deserialize<D: serde::Deserializer<'de>>(d: D) -> Result<F, D::Error> {
        let v = serde_json::Value::deserialize(d)?;
        Ok(F(match v {
            serde_json::Value::Number(n) => n.as_f64().unwrap_or(f64::NAN),
            serde_json::Value::String(s) => s.parse().unwrap_or(f64::NAN),
            _ => f64::NAN,
        }))
    }
}

#[derive(Clone, Debug, PartialEq, Serialize, Deserialize)]
pub struct Row {
    pub icao: u32,
    pub ca: u32,
    pub cap_flags: u32,
    pub cap_bds: [bool; 5], // 20 40 44 50 60
    pub category: (u32, u32),
    pub reg: String,
    pub ais: Option<String>,
    pub altitude: Option<u32>,
    pub altitude_gnss: Option<u32>,
    pub altitude_source: char,
    pub selected_altitude: Option<u32>,
    pub barometric_pressure_setting: Option<u32>,
    pub target_altitude_source: char,
    pub squawk: Option<u32>,
    pub surveillance_status: char,
    pub threat_encounter: Option<char>,
    pub vrate: Option<i32>,
    pub vrate_source: char,
    pub cpr_lat: [u32; 2],
    pub cpr_lon: [u32; 2],
    pub cpr_time: [i64; 2],
    pub lat: F,
    pub lon: F,
    pub distance: Option<F>,
    pub grspeed: Option<u32>,
    pub true_airspeed: Option<u32>,
    pub indicated_airspeed: Option<u32>,
    pub mach_number: Option<F>,
    pub ground_movement: Option<F>,
    pub turn: u32,
    pub track: Option<u32>,
    pub track_source: char,
    pub heading: Option<u32>,
    pub heading_source: char,
    pub roll_angle: Option<i32>,
    pub track_angle_rate: Option<i32>,
    pub bds_5_0_timestamp: Option<i64>,
    pub temperature: Option<F>,
    pub wind: Option<(u32, u32)>,
    pub turbulence: Option<u32>,
    pub humidity: Option<u32>,
    pub pressure: Option<u32>,
    pub timestamp: i64,
    pub position_timestamp: Option<i64>,
    pub track_timestamp: Option<i64>,
    pub heading_timestamp: Option<i64>,
    pub last_type_code: u32,
    pub last_df: u32,
    pub adsb_version: Option<u32>,
}

pub fn project(p: &Plane) -> Row {
    Row {
        icao: p.icao,
        ca: p.capability.0,
        cap_flags: p.capability.1.flags,
        cap_bds: [p.capability.1.bds20, p.capability.1.bds40, p.capability.1.bds44, p.capability.1.bds50, p.capability.1.bds60],
        category: p.category,
        reg: p.reg.to_string(),
        ais: p.ais.clone(),
        altitude: p.altitude,
        altitude_gnss: p.altitude_gnss,
        altitude_source: p.altitude_source,
        selected_altitude: p.selected_altitude,
        barometric_pressure_setting: p.barometric_pressure_setting,
        target_altitude_source: p.target_altitude_source,
        squawk: p.squawk,
        surveillance_status: p.surveillance_status,
        threat_encounter: p.threat_encounter,
        vrate: p.vrate,
        vrate_source: p.vrate_source,
        cpr_lat: p.cpr_lat,
        cpr_lon: p.cpr_lon,
        cpr_time: [us(&p.cpr_time[0]), us(&p.cpr_time[1])],
        lat: F(p.lat),
        lon: F(p.lon),
        distance: p.distance_from_observer.map(F),
        grspeed: p.grspeed,
        true_airspeed: p.true_airspeed,
        indicated_airspeed: p.indicated_airspeed,
        mach_number: p.mach_number.map(F),
        ground_movement: p.ground_movement.map(F),
        turn: p.turn,
        track: p.track,
        track_source: p.track_source,
        heading: p.heading,
        heading_source: p.heading_source,
        roll_angle: p.roll_angle,
        track_angle_rate: p.track_angle_rate,
        bds_5_0_timestamp: ous(&p.bds_5_0_timestamp),
        temperature: p.temperature.map(F),
        wind: p.wind,
        turbulence: p.turbulence,
        humidity: p.humidity,
        pressure: p.pressure,
        timestamp: us(&p.timestamp),
        position_timestamp: ous(&p.position_timestamp),
        track_timestamp: ous(&p.track_timestamp),
        heading_timestamp: ous(&p.heading_timestamp),
        last_type_code: p.last_type_code,
        last_df: p.last_df,
        adsb_version: p.adsb_version,
    }
}

/// The whole table, keys sorted (the harness never depends on HashMap order).
pub type Snapshot = BTreeMap<u32, Row>;

/// Names of the fields in which two rows differ.
pub fn diff_fields(a: &Row, b: &Row) -> Vec<String> {
    let va = serde_json::to_value(a).unwrap();
    let vb = serde_json::to_value(b).unwrap();
    let mut out = vec![];
    if let (Some(ma), Some(mb)) = (va.as_object(), vb.as_object()) {
        for (k, x) in ma {
            if mb.get(k) != Some(x) {
                out.push(format!("{}: {} -> {}", k, x, mb.get(k).unwrap_or(&serde_json::Value::Null)));
            }
        }
    }
    out
}

/// Human-readable difference between two tables (first few items).
pub fn diff_snap(a: &Snapshot, b: &Snapshot) -> Vec<String> {
    let mut out = vec![];
    for (k, ra) in a {
        match b.get(k) {
            None => out.push(format!("{:06X}: removed", k)),
            Some(rb) if ra != rb => out.push(format!("{:06X}: {}", k, diff_fields(ra, rb).join("; "))),
            _ => {}
        }
    }
    for k in b.keys() {
        if !a.contains_key(k) {
            out.push(format!("{:06X}: added", k));
        }
    }
    out
}
