//! Batch driver: worker processes, merging, known findings, minimisation,
//! replay files, evidence.
use crate::kf::{root_dir, Known};
use crate::props::{self, Prop, Tier};
use crate::rng::{mix, Rng};
use crate::script::{Case, Conn, Op, ReplayFile, Violation};
use crate::stats::Stats;
use serde::{Deserialize, Serialize};
use serde_json::json;
use std::collections::BTreeMap;
use std::path::PathBuf;
use std::time::{Duration, Instant};

pub const DEFAULT_SEED: u64 = 20261003;

#[derive(Serialize, Deserialize, Clone, Debug)]
pub struct Found {
    pub run: u64,
    pub violation: Violation,
    pub case: Case,
}

#[derive(Serialize, Deserialize, Default)]
pub struct WorkerOut {
    pub stats: Stats,
    pub unknown: Vec<Found>,
    /// finding id -> (count, first example)
    pub known: BTreeMap<String, (u64, Option<Found>)>,
    pub tainted: bool,
    pub profile: String,
}

pub fn profile_name() -> String {
    let exe = std::env::current_exe().unwrap_or_default();
    exe.parent().and_then(|p| p.file_name()).map(|s| s.to_string_lossy().to_string()).unwrap_or_else(|| "unknown".into())
}

pub fn case_for(prop: &Prop, seed: u64, idx: u64, tier: Tier) -> Case {
    let mut rng = Rng::new(mix(seed, prop.id, idx));
    (prop.gen)(&mut rng, idx, tier)
}

pub fn summarise(case: &Case) -> serde_json::Value {
    // a readable, bounded rendering of a case for evidence samples
    let mut v = serde_json::to_value(case).unwrap();
    fn trim(v: &mut serde_json::Value) {
        match v {
            serde_json::Value::String(s) if s.len() > 160 => {
                let n = s.len();
                let mut cut = 120;
                while !s.is_char_boundary(cut) { cut -= 1; }
                s.truncate(cut);
                s.push_str(&format!("...[{} bytes]", n));
            }
            serde_json::Value::Array(a) => {
                if a.len() > 40 {
                    let n = a.len();
                    a.truncate(40);
                    a.push(json!(format!("...[{} items in total]", n)));
                }
                for x in a { trim(x); }
            }
            serde_json::Value::Object(o) => { for (_, x) in o.iter_mut() { trim(x); } }
            _ => {}
        }
    }
    trim(&mut v);
    v
}

#[derive(Serialize, Deserialize, Default)]
struct ChildOut {
    stats: Stats,
    viols: Vec<Violation>,
    tainted: bool,
    nontrivial: bool,
    n_ops: usize,
    /// Present when there is a violation, or when the parent may want it as an evidence sample.
    case: Option<Case>,
}

/// Executes one run in a forked child: the real program runs once per process, so no state of the
/// system under test (statics, caches) may survive from one simulated run to the next.  The parent
/// never simulates, hence never has threads of its own when it forks.
/// Runs `f` in a forked child and returns what it returned (None if the child died).
pub fn in_child<T: Serialize + serde::de::DeserializeOwned>(f: impl FnOnce() -> T) -> Option<T> {
    let mut fds = [0i32; 2];
    if unsafe { libc::pipe(fds.as_mut_ptr()) } != 0 { return None; }
    let pid = unsafe { libc::fork() };
    if pid < 0 { return None; }
    if pid == 0 {
        unsafe { libc::close(fds[0]); }
        let out = f();
        let data = serde_json::to_vec(&out).unwrap_or_default();
        let mut off = 0;
        while off < data.len() {
            let n = unsafe { libc::write(fds[1], data[off..].as_ptr() as *const libc::c_void, data.len() - off) };
            if n <= 0 { break; }
            off += n as usize;
        }
        unsafe { libc::close(fds[1]); libc::_exit(0); }
    }
    unsafe { libc::close(fds[1]); }
    let mut data: Vec<u8> = Vec::with_capacity(1 << 14);
    let mut buf = [0u8; 1 << 16];
    loop {
        let n = unsafe { libc::read(fds[0], buf.as_mut_ptr() as *mut libc::c_void, buf.len()) };
        if n > 0 { data.extend_from_slice(&buf[..n as usize]); } else if n == 0 { break; } else if std::io::Error::last_os_error().kind() != std::io::ErrorKind::Interrupted { break; }
    }
    unsafe { libc::close(fds[0]); }
    let mut status = 0i32;
    unsafe { libc::waitpid(pid, &mut status, 0); }
    serde_json::from_slice(&data).ok()
}

fn run_isolated(prop: &Prop, seed: u64, tier: Tier, i: u64, want_sample_below: usize) -> Option<ChildOut> {
    in_child(|| {
        let case = case_for(prop, seed, i, tier);
        let mut st = Stats { runs: 1, ..Default::default() };
        let viols = (prop.check)(&case, &mut st);
        let nontrivial = st.nontrivial_runs > 0;
        let n_ops = case.script.n_ops();
        let keep = !viols.is_empty() || (nontrivial && n_ops < want_sample_below);
        ChildOut { stats: st, viols, tainted: crate::exec::is_tainted(), nontrivial, n_ops, case: if keep { Some(case) } else { None } }
    })
}

pub fn worker(prop: &Prop, seed: u64, tier: Tier, start: u64, stride: u64, max_runs: u64, deadline: Duration, out: &str) {
    crate::exec::process_init();
    let known = Known::load();
    let t0 = Instant::now();
    let mut w = WorkerOut { profile: profile_name(), ..Default::default() };
    let mut i = start;
    let mut shortest: Option<(usize, serde_json::Value)> = None;
    let mut died = 0u64;
    while i < max_runs && t0.elapsed() < deadline {
        let below = if w.stats.samples.len() < 2 { usize::MAX } else { shortest.as_ref().map(|s| s.0).unwrap_or(usize::MAX) };
        let Some(c) = run_isolated(prop, seed, tier, i, below) else {
            // the child died without a result (abort, stack overflow, out of memory): not a run we can judge
            died += 1;
            *w.stats.outcomes.entry("child-died".into()).or_insert(0) += 1;
            w.stats.runs += 1;
            w.stats.discarded_by_crash += 1;
            if died > 20 { break; }
            i += stride;
            continue;
        };
        let viols = c.viols;
        if c.nontrivial {
            if let Some(case) = &c.case {
                if w.stats.samples.len() < 2 { w.stats.sample(json!({"run": i, "case": summarise(case)})); }
                if shortest.as_ref().map(|s| c.n_ops < s.0).unwrap_or(true) { shortest = Some((c.n_ops, json!({"run": i, "shortest_nontrivial": true, "case": summarise(case)}))); }
            }
        }
        w.stats.merge_capped(c.stats, crate::stats::MAX_SET);
        let mut stop = false;
        for v in viols {
            let Some(case) = c.case.clone() else { continue };
            match known.matches(prop.id, &v) {
                Some(e) => {
                    let ent = w.known.entry(e.id.clone()).or_insert((0, None));
                    ent.0 += 1;
                    if ent.1.is_none() { ent.1 = Some(Found { run: i, violation: v, case }); }
                }
                None => {
                    w.unknown.push(Found { run: i, violation: v, case });
                    stop = true;
                }
            }
        }
        if c.tainted {
            // a run hung (8 s of wall clock each): do not burn the budget on more of them
            w.tainted = true;
            break;
        }
        if stop { break; }
        i += stride;
    }
    if let Some((_, s)) = shortest { w.stats.samples.push(s); }
    std::fs::write(out, serde_json::to_vec(&w).unwrap()).expect("write worker output");
}

// ------------------------------------------------------------------ minimiser

/// (fires?, hung?) - evaluated in a forked child so that candidates do not inherit state from each other.
fn fires(prop: &Prop, case: &Case, rule: &str, known: &Known, want_known: Option<&str>) -> bool {
    let r = in_child(|| (fires_here(prop, case, rule, known, want_known), crate::exec::is_tainted()));
    match r {
        Some((f, hung)) => { if hung { HUNG.store(true, std::sync::atomic::Ordering::SeqCst); } f }
        None => false,
    }
}

static HUNG: std::sync::atomic::AtomicBool = std::sync::atomic::AtomicBool::new(false);

fn fires_here(prop: &Prop, case: &Case, rule: &str, known: &Known, want_known: Option<&str>) -> bool {
    let mut st = Stats::default();
    let vs = (prop.check)(case, &mut st);
    vs.iter().any(|v| {
        v.rule == rule
            && match (known.matches(prop.id, v), want_known) {
                (None, None) => true,
                (Some(e), Some(id)) => e.id == id,
                _ => false,
            }
    })
}

fn all_ops(case: &Case) -> Vec<(usize, usize)> {
    let mut v = vec![];
    for (ci, c) in case.script.conns.iter().enumerate() {
        if let Conn::Accept { ops } = c {
            for oi in 0..ops.len() { v.push((ci, oi)); }
        }
    }
    v
}

fn without_ops(case: &Case, drop: &[(usize, usize)]) -> Case {
    let mut c = case.clone();
    for (ci, conn) in c.script.conns.iter_mut().enumerate() {
        if let Conn::Accept { ops } = conn {
            let mut k = 0;
            ops.retain(|_| { let keep = !drop.contains(&(ci, k)); k += 1; keep });
        }
    }
    c
}

/// Delta debugging on the script while the same oracle rule keeps firing.
pub fn minimise(prop: &Prop, case: &Case, rule: &str, known: &Known, want_known: Option<&str>, budget: Duration) -> Case {
    let t0 = Instant::now();
    // every hanging candidate costs the watchdog time-out: keep the search short for hangs
    let budget = if rule.ends_with("wedge") { budget.min(Duration::from_secs(25)) } else { budget };
    let mut best = case.clone();
    let ok = |c: &Case| -> bool { fires(prop, c, rule, known, want_known) };
    if !ok(&best) { return best; }
    let mut progress = true;
    while progress && t0.elapsed() < budget {
        progress = false;
        // whole connections
        let mut ci = 0;
        while ci < best.script.conns.len() && best.script.conns.len() > 1 {
            let mut c = best.clone();
            c.script.conns.remove(ci);
            if c.script.conns.iter().any(|x| matches!(x, Conn::Accept { .. })) && ok(&c) { best = c; progress = true; } else { ci += 1; }
            if t0.elapsed() > budget { break; }
        }
        // ops: chunks, then singles
        let mut chunk = (all_ops(&best).len() / 2).max(1);
        loop {
            let ops = all_ops(&best);
            let mut i = 0;
            let mut any = false;
            while i < ops.len() {
                let cur = all_ops(&best);
                if i >= cur.len() { break; }
                let drop: Vec<(usize, usize)> = cur[i..(i + chunk).min(cur.len())].to_vec();
                let c = without_ops(&best, &drop);
                if ok(&c) { best = c; any = true; progress = true; } else { i += chunk; }
                if t0.elapsed() > budget { break; }
            }
            if chunk == 1 && !any { break; }
            if chunk > 1 { chunk /= 2; }
            if t0.elapsed() > budget { break; }
        }
        // options (an option present in both option vectors of a differential case is removed from both,
        // so the two vectors keep differing only in what the generator made them differ in)
        let mut ai = 0;
        while ai < best.script.args.len() {
            let mut c = best.clone();
            let arg = c.script.args.remove(ai);
            if let Some(b) = &mut c.args_b {
                if let Some(pos) = b.iter().position(|x| *x == arg) { b.remove(pos); }
            }
            if ok(&c) { best = c; progress = true; } else { ai += 1; }
        }
        if let Some(b) = best.args_b.clone() {
            let mut ai = 0;
            let mut cur = b;
            while ai < cur.len() {
                if best.script.args.contains(&cur[ai]) { ai += 1; continue; }
                let mut nb = cur.clone();
                nb.remove(ai);
                let mut c = best.clone();
                c.args_b = Some(nb.clone());
                if ok(&c) { best = c; cur = nb; progress = true; } else { ai += 1; }
            }
        }
        if best.script.log_level != "off" { let mut c = best.clone(); c.script.log_level = "off".into(); if ok(&c) { best = c; progress = true; } }
        if best.log_level_b.as_deref().map(|l| l != "off").unwrap_or(false) { let mut c = best.clone(); c.log_level_b = Some("off".into()); if ok(&c) { best = c; progress = true; } }
        if best.script.tick_us != 0 { let mut c = best.clone(); c.script.tick_us = 0; if ok(&c) { best = c; progress = true; } }
        // times: 0, else whole seconds
        for (ci, oi) in all_ops(&best) {
            let dt = if let Conn::Accept { ops } = &best.script.conns[ci] { ops[oi].dt() } else { 0 };
            if dt == 0 { continue; }
            for cand in [0, dt / 1_000_000 * 1_000_000] {
                if cand == dt { continue; }
                let mut c = best.clone();
                if let Conn::Accept { ops } = &mut c.script.conns[ci] { ops[oi].set_dt(cand); }
                if ok(&c) { best = c; progress = true; break; }
            }
            if t0.elapsed() > budget { break; }
        }
        // lines: strip decoration (plain upper-case hex) where the line is frame-shaped
        for (ci, oi) in all_ops(&best) {
            let mut c = best.clone();
            let mut changed = false;
            if let Conn::Accept { ops } = &mut c.script.conns[ci] {
                if let Op::Data { bytes, .. } = &mut ops[oi] {
                    if bytes.0.ends_with(b"\n") && bytes.0.iter().filter(|&&b| b == b'\n').count() == 1 {
                        let cls = crate::refm::classify(&bytes.0[..bytes.0.len() - 1]);
                        if let Some(f) = cls.frame {
                            let mut nb = crate::modes::to_hex(&f).into_bytes();
                            nb.push(b'\n');
                            if nb != bytes.0 { bytes.0 = nb; changed = true; }
                        }
                    }
                }
            }
            if changed && ok(&c) { best = c; progress = true; }
            if t0.elapsed() > budget { break; }
        }
    }
    best
}

// ---------------------------------------------------------------------- batch

pub struct BatchCfg {
    pub tier: Tier,
    pub seed: u64,
    pub jobs: usize,
    pub runs: u64,
    pub budget: Duration,
}

fn spawn_workers(bin: &PathBuf, prop: &Prop, cfg: &BatchCfg, runs: u64, tag: &str) -> Vec<(std::process::Child, PathBuf)> {
    let dir = root_dir().join("work");
    let _ = std::fs::create_dir_all(&dir);
    let mut kids = vec![];
    for j in 0..cfg.jobs {
        let out = dir.join(format!("{}-{}-{}-{}.json", prop.id, tag, std::process::id(), j));
        let _ = std::fs::remove_file(&out);
        let child = std::process::Command::new(bin)
            .args(["worker", prop.id, &cfg.seed.to_string(), if cfg.tier == Tier::Quick { "quick" } else { "thorough" }, &j.to_string(), &cfg.jobs.to_string(), &runs.to_string(), &cfg.budget.as_secs().to_string(), out.to_str().unwrap()])
            .env("SIMCHECK_ROOT", root_dir())
            .stdout(std::process::Stdio::null())
            .spawn()
            .expect("spawn worker");
        kids.push((child, out));
    }
    kids
}

pub fn run_batch(prop: &Prop, cfg: &BatchCfg) -> i32 {
    let t0 = Instant::now();
    let known = Known::load();
    let me = std::env::current_exe().expect("current_exe");
    let mut groups: Vec<(String, Vec<(std::process::Child, PathBuf)>)> = vec![];
    let mut profiles = vec![profile_name()];
    groups.push((profile_name(), spawn_workers(&me, prop, cfg, cfg.runs, "a")));
    if prop.both_profiles {
        match std::env::var("SIMCHECK_RELEASE_BIN") {
            Ok(rb) if std::path::Path::new(&rb).exists() => {
                // the second profile runs concurrently on the same cores
                groups.push(("simrelease".into(), spawn_workers(&PathBuf::from(rb), prop, cfg, cfg.runs / 2, "b")));
                profiles.push("simrelease".into());
            }
            _ => {
                eprintln!("harness error: {} needs the simrelease build (SIMCHECK_RELEASE_BIN)", prop.id);
                return 2;
            }
        }
    }
    let mut stats = Stats::default();
    let mut unknown: Vec<(String, Found)> = vec![];
    let mut known_hits: BTreeMap<String, (u64, Option<Found>)> = BTreeMap::new();
    let mut per_profile: BTreeMap<String, u64> = BTreeMap::new();
    for (pname, kids) in groups {
        for (mut child, out) in kids {
            let status = child.wait().expect("wait worker");
            let data = std::fs::read(&out);
            let _ = std::fs::remove_file(&out);
            let Ok(data) = data else {
                eprintln!("harness error: worker produced no output (status {:?})", status);
                return 2;
            };
            let w: WorkerOut = match serde_json::from_slice(&data) {
                Ok(w) => w,
                Err(e) => { eprintln!("harness error: bad worker output: {}", e); return 2; }
            };
            *per_profile.entry(pname.clone()).or_insert(0) += w.stats.runs;
            stats.merge(w.stats);
            for f in w.unknown { unknown.push((pname.clone(), f)); }
            for (k, (n, ex)) in w.known {
                let e = known_hits.entry(k).or_insert((0, None));
                e.0 += n;
                if e.1.is_none() { e.1 = ex; }
            }
        }
    }
    // every quick run repeats a slice of the determinism self-test (two processes sets, different worker counts)
    let det_n = if cfg.tier == Tier::Quick { 96 } else { 400 };
    // (skipped when a run of the batch hung: every repetition would cost the watchdog time-out again)
    let hung = stats.outcomes.contains_key("wedge");
    let det_ok = hung || determinism_slice(prop, cfg.seed, det_n);
    if !det_ok {
        eprintln!("harness error: determinism slice failed for {} ({} seeds): event logs differ between processes", prop.id, det_n);
    }
    // thorough tier of the stream-level properties: confirm the stubs against the real CLI
    let mut e2e_json = serde_json::Value::Null;
    let mut e2e_bad = false;
    if cfg.tier == Tier::Thorough && ["C01", "C13", "C16"].contains(&prop.id) {
        match crate::e2e::run_for(&[prop.id], 150, cfg.seed) {
            Ok(r) => {
                e2e_bad = r.disagreements > 0;
                e2e_json = json!({"exported_file_scripts": r.runs, "lines": r.lines, "with_rows_listed": r.with_rows, "with_counter_line": r.with_counter, "builds": ["debug", "release"], "disagreements": r.disagreements});
            }
            Err(e) => { eprintln!("harness error: end-to-end stage: {}", e); e2e_bad = true; }
        }
    }
    let wall = t0.elapsed().as_secs_f64();
    for (id, (n, ex)) in &known_hits {
        let what = known.entries.iter().find(|e| &e.id == id).map(|e| e.what.clone()).unwrap_or_default();
        println!("KNOWN-FINDING: property={} {} [{}; {} occurrences in this batch; e.g. run {}]", prop.id, what, id, n, ex.as_ref().map(|f| f.run).unwrap_or(0));
    }
    let mut exit = 0;
    let mut n_viol = 0;
    // "HARNESS." rules are reported by oracles that notice the simulator lost sight of the system
    // (e.g. output no longer goes through the stdout seam): a harness error, never a verdict
    if let Some((_, f)) = unknown.iter().find(|(_, f)| f.violation.rule.starts_with("HARNESS.")) {
        eprintln!("harness error: {} (run {}): {}", f.violation.rule, f.run, f.violation.msg);
        unknown.clear();
        exit = 2;
    }
    if !unknown.is_empty() {
        unknown.sort_by_key(|(p, f)| (f.run, p.clone()));
        // one report per distinct rule, lowest run index first.  A candidate whose replay does not reproduce in a
        // fresh process (the system under test kept state from an earlier run of the same worker process - the
        // real program runs once per process) is set aside and the next candidate of that rule is tried.
        let mut reported: Vec<String> = vec![];
        let mut not_reproduced: Vec<String> = vec![];
        for (pname, f) in &unknown {
            if reported.contains(&f.violation.rule) { continue; }
            if reported.len() >= 3 { break; }
            let bin = if pname == "simrelease" { PathBuf::from(std::env::var("SIMCHECK_RELEASE_BIN").unwrap()) } else { me.clone() };
            match report(prop, cfg, &bin, pname, f) {
                Ok(path) => {
                    reported.push(f.violation.rule.clone());
                    n_viol += 1;
                    println!("VIOLATION property={} replay={}", prop.id, path);
                }
                Err(e) => { not_reproduced.push(e); }
            }
        }
        if reported.is_empty() {
            for e in &not_reproduced { eprintln!("harness error: {}", e); }
            exit = 2;
        } else {
            for e in &not_reproduced { eprintln!("note: {}", e); }
            exit = 1;
        }
    }
    let discard_ratio = stats.discarded_by_crash as f64 / stats.runs.max(1) as f64;
    if exit == 0 && discard_ratio > 0.2 {
        eprintln!("harness error: {:.0}% of the runs were discarded because the decoder crashed; no verdict for {}", discard_ratio * 100.0, prop.id);
        exit = 2;
    }
    if (!det_ok || e2e_bad) && exit == 0 { exit = 2; }
    write_evidence(prop, cfg, &stats, wall, n_viol, &known_hits, &profiles, &per_profile, (det_n, det_ok), e2e_json);
    println!(
        "{} {}: {} runs ({} executions, {} non-trivial) in {:.1}s, {} distinct non-trivial cases, {} abstract states, {} event bigrams, violations={} known-findings={} discarded={}",
        prop.id, if cfg.tier == Tier::Quick { "quick" } else { "thorough" }, stats.runs, stats.executions, stats.nontrivial_runs, wall, stats.scripts.len(), stats.states.len(), stats.bigrams.len(), n_viol, known_hits.len(), stats.discarded_by_crash
    );
    exit
}

/// Minimises in a child process, writes the replay file, verifies it reproduces in a fresh process.
fn report(prop: &Prop, cfg: &BatchCfg, bin: &PathBuf, profile: &str, f: &Found) -> Result<String, String> {
    let dir = root_dir().join("replays");
    let _ = std::fs::create_dir_all(&dir);
    let path = dir.join(format!("{}-{}-{}.json", prop.id, cfg.seed, f.run));
    let raw = ReplayFile { property: prop.id.into(), seed: cfg.seed, run: f.run, profile: profile.into(), rule: f.violation.rule.clone(), msg: f.violation.msg.clone(), witness: f.violation.witness.clone(), minimised: false, case: f.case.clone() };
    std::fs::write(&path, serde_json::to_vec_pretty(&raw).unwrap()).map_err(|e| e.to_string())?;
    // minimise (child process: a wedging candidate must not take the driver down)
    let min_path = dir.join(format!("{}-{}-{}.min.json", prop.id, cfg.seed, f.run));
    let _ = std::fs::remove_file(&min_path);
    let st = std::process::Command::new(bin).args(["minimise", path.to_str().unwrap(), min_path.to_str().unwrap()]).env("SIMCHECK_ROOT", root_dir()).status();
    if matches!(st, Ok(s) if s.success()) && min_path.exists() {
        let _ = std::fs::rename(&min_path, &path);
    }
    // the replay must reproduce in a fresh process
    let replay = |p: &PathBuf| -> Result<(Option<i32>, String), String> {
        let out = std::process::Command::new(bin).args(["replay", p.to_str().unwrap()]).env("SIMCHECK_ROOT", root_dir()).output().map_err(|e| e.to_string())?;
        Ok((out.status.code(), String::from_utf8_lossy(&out.stdout).to_string()))
    };
    let (mut code, mut text) = replay(&path)?;
    if code != Some(1) || !text.contains(&format!("rule={}", f.violation.rule)) {
        // fall back to the case exactly as it was found
        std::fs::write(&path, serde_json::to_vec_pretty(&raw).unwrap()).map_err(|e| e.to_string())?;
        let r = replay(&path)?;
        code = r.0;
        text = r.1;
    }
    if code != Some(1) || !text.contains(&format!("rule={}", f.violation.rule)) {
        return Err(format!("replay of {} did not reproduce rule {} (exit {:?}): {}", path.display(), f.violation.rule, code, text.trim()));
    }
    for l in text.lines().filter(|l| l.starts_with("  ")) { println!("{}", l); }
    Ok(path.to_string_lossy().to_string())
}

pub fn replay(path: &str) -> i32 {
    crate::exec::process_init();
    let data = match std::fs::read(path) { Ok(d) => d, Err(e) => { eprintln!("cannot read {}: {}", path, e); return 2; } };
    let rf: ReplayFile = match serde_json::from_slice(&data) { Ok(r) => r, Err(e) => { eprintln!("cannot parse {}: {}", path, e); return 2; } };
    let Some(prop) = props::find(&rf.property) else { eprintln!("unknown property {}", rf.property); return 2; };
    let mut st = Stats::default();
    let vs = (prop.check)(&rf.case, &mut st);
    if vs.is_empty() {
        println!("replay {}: no violation (recorded: rule={})", path, rf.rule);
        return 0;
    }
    let known = Known::load();
    let mut code = 0;
    for v in &vs {
        let k = known.matches(prop.id, v);
        println!("  rule={} step={} {}", v.rule, v.step, v.msg);
        println!("  witness={}", v.witness);
        match k {
            Some(e) => println!("KNOWN-FINDING: property={} {}", prop.id, e.what),
            None => code = 1,
        }
    }
    if code == 1 { println!("VIOLATION property={} replay={}", prop.id, path); }
    code
}

pub fn minimise_file(inp: &str, out: &str) -> i32 {
    crate::exec::process_init();
    let Ok(data) = std::fs::read(inp) else { return 2 };
    let Ok(mut rf) = serde_json::from_slice::<ReplayFile>(&data) else { return 2 };
    let Some(prop) = props::find(&rf.property) else { return 2 };
    let known = Known::load();
    let probe = Violation { rule: rf.rule.clone(), msg: rf.msg.clone(), step: 0, witness: rf.witness.clone() };
    let want = known.matches(prop.id, &probe).map(|e| e.id.clone());
    let secs = std::env::var("SIMCHECK_MIN_BUDGET_S").ok().and_then(|s| s.parse().ok()).unwrap_or(60);
    let best = minimise(&prop, &rf.case, &rf.rule, &known, want.as_deref(), Duration::from_secs(secs));
    // re-derive message and witness from the minimised case
    let rule = rf.rule.clone();
    let found = in_child(|| {
        let mut st = Stats::default();
        (prop.check)(&best, &mut st).into_iter().find(|v| v.rule == rule)
    });
    if let Some(Some(v)) = found {
        rf.msg = v.msg.clone();
        rf.witness = v.witness.clone();
        rf.case = best;
        rf.minimised = true;
    }
    if std::fs::write(out, serde_json::to_vec_pretty(&rf).unwrap()).is_err() { return 2; }
    0
}

#[allow(clippy::too_many_arguments)]
fn write_evidence(prop: &Prop, cfg: &BatchCfg, s: &Stats, wall: f64, n_viol: usize, known_hits: &BTreeMap<String, (u64, Option<Found>)>, profiles: &[String], per_profile: &BTreeMap<String, u64>, det: (u64, bool), e2e: serde_json::Value) {
    let dir = root_dir().join("evidence");
    let _ = std::fs::create_dir_all(&dir);
    let per_hour = |n: u64| if wall > 0.0 { (n as f64 / wall * 3600.0) as u64 } else { 0 };
    let zero_probes: Vec<&String> = s.probes.iter().filter(|(_, v)| **v == 0).map(|(k, _)| k).collect();
    let ev = json!({
        "property_id": prop.id,
        "tier": if cfg.tier == Tier::Quick { "quick" } else { "thorough" },
        "seed": cfg.seed,
        "level": "exploration",
        "coverage": {
            "evaluations": s.runs,
            "distinct_nontrivial": s.scripts.len(),
            "rule": format!("{}; distinct_nontrivial counts distinct scripts (hash of the full option vector + event list) among non-trivial runs, capped at {} per worker process", prop.rule, crate::stats::MAX_SET),
            "samples": s.samples,
            "exhaustive": false,
            "executions": s.executions,
            "nontrivial_runs": s.nontrivial_runs,
            "oracle_evaluations": s.oracle_evals,
            "runs_per_hour": per_hour(s.runs),
            "seeds_per_hour": per_hour(s.runs),
            "simulated_seconds_total": s.sim_us_total as f64 / 1e6,
            "seam_events_total": s.events_total,
            "lines_total": s.lines_total,
            "faults_fired": s.faults,
            "probes": s.probes,
            "probes_stuck_at_zero": zero_probes,
            "distinct_abstract_states": s.states.len(),
            "distinct_event_bigrams": s.bigrams.len(),
            "outcomes": s.outcomes,
            "discarded_by_crash": s.discarded_by_crash,
            "profiles": profiles,
            "runs_per_profile": per_profile,
            "jobs": cfg.jobs,
            "end_to_end_real_cli": e2e,
            "determinism_slice": {"seeds": det.0, "processes_per_seed": 2, "worker_counts": [8, 3], "event_logs_and_verdicts_identical": det.1, "skipped_because_a_run_hung": s.outcomes.contains_key("wedge")},
            "known_findings_matched": known_hits.iter().map(|(k, v)| (k.clone(), json!(v.0))).collect::<serde_json::Map<_, _>>(),
            "components": {
                "real_code": ["clap option parsing (Args)", "reader thread (spawn_reader_thread, read_lines, connect_and_read_tcp, read_from_file)", "every decoder", "Planes / Plane table, sweep, sorting, formatting, counters", "std BufReader / lines()"],
                "stubs": ["clock: chrono::Utc::now() (patched chrono copy sim/chrono-sim via the shadow manifest)", "TcpStream::connect / read", "File::open / read", "thread::sleep", "stdout (print!/println!)", "log sink"],
                "not_executed": ["src/main.rs (26 lines: option parsing, logger, observer, join)"]
            }
        },
        "assumptions": [
            "the harness's own frame encoder, CRC-24 and reference models are correct (unit-tested against literature vectors)",
            "the clock seam is a verbatim copy of chrono 0.4.40 in which only Utc::now() consults the simulated clock (sim/chrono-sim)",
            "the reader thread is the only code touching the table during a run",
            "every simulated run executes in its own forked process (no state of the decoder survives from one run to the next, as in the real one-run-per-process program)",
            "seeded sampling: a clean batch is evidence, not proof"
        ],
        "wall_s": wall,
        "violations": n_viol
    });
    let p = dir.join(format!("{}.json", prop.id));
    std::fs::write(&p, serde_json::to_vec_pretty(&ev).unwrap()).expect("write evidence");
}

// --------------------------------------------------------------- determinism

/// Executes `n` cases twice in this process and returns a digest per run of the
/// full event log; the caller compares digests across processes / worker counts.
pub fn digest_runs(prop: &Prop, seed: u64, start: u64, stride: u64, n: u64) -> Vec<(u64, u64)> {
    crate::exec::process_init();
    let mut out = vec![];
    let mut i = start;
    let t0 = Instant::now();
    while i < n && t0.elapsed() < Duration::from_secs(90) {
        // one process per run here too (the logger, statics of the decoder ...)
        let r = in_child(|| {
            let case = case_for(prop, seed, i, Tier::Quick);
            let h = crate::exec::run(&case.script);
            if crate::exec::is_tainted() { return None; }
            let mut st = Stats::default();
            let vs = (prop.check)(&case, &mut st);
            let verdict = format!("{:?}|{}|{}", vs, st.oracle_evals, st.nontrivial_runs);
            Some(crate::exec::digest(&h) ^ crate::stats::fnv(verdict.as_bytes()).rotate_left(17))
        });
        match r {
            Some(Some(d)) => out.push((i, d)),
            _ => {
                // a run hung or its process died: do not burn time on more of them
                out.push((i, 0xDEAD));
                break;
            }
        }
        i += stride;
    }
    out
}

/// Determinism self-test: every run index is executed in three different
/// processes (two passes with one worker count, one pass with another); the
/// digests of the complete event logs and verdicts must agree.
fn digest_pass(prop: &Prop, seed: u64, stride: u64, n: u64) -> BTreeMap<u64, String> {
    let me = std::env::current_exe().expect("current_exe");
    let kids: Vec<std::process::Child> = (0..stride)
        .map(|j| std::process::Command::new(&me).args(["digest", prop.id, &seed.to_string(), &j.to_string(), &stride.to_string(), &n.to_string()]).env("SIMCHECK_ROOT", root_dir()).stdout(std::process::Stdio::piped()).spawn().expect("spawn"))
        .collect();
    let mut m = BTreeMap::new();
    for k in kids {
        let out = k.wait_with_output().expect("wait");
        for l in String::from_utf8_lossy(&out.stdout).lines() {
            if let Some((i, d)) = l.split_once(' ') { m.insert(i.parse().unwrap_or(u64::MAX), d.to_string()); }
        }
    }
    m
}

/// The slice of the determinism self-test that every quick run repeats.
pub fn determinism_slice(prop: &Prop, seed: u64, n: u64) -> bool {
    let (a, b) = (digest_pass(prop, seed, 8, n), digest_pass(prop, seed, 3, n));
    (0..n).all(|i| a.get(&i).is_some() && a.get(&i) == b.get(&i))
}

pub fn selftest_determinism(ids: &[String], n: u64, seed: u64) -> i32 {
    let mut bad = 0;
    for prop in props::all() {
        if !ids.is_empty() && !ids.iter().any(|i| i == prop.id) { continue; }
        let t0 = Instant::now();
        let pass = |stride: u64| digest_pass(&prop, seed, stride, n);
        let (a, b, c) = (pass(16), pass(16), pass(5));
        let mut diverged = vec![];
        for i in 0..n {
            let (x, y, z) = (a.get(&i), b.get(&i), c.get(&i));
            if x.is_none() || x != y || x != z { diverged.push(i); }
        }
        if diverged.is_empty() {
            println!("determinism {}: {} seeds x 3 processes (worker counts 16, 16, 5): event logs and verdicts identical ({:.1}s)", prop.id, n, t0.elapsed().as_secs_f64());
        } else {
            println!("determinism {}: {} of {} seeds DIVERGED, e.g. run {:?}", prop.id, diverged.len(), n, &diverged[..diverged.len().min(5)]);
            bad += 1;
        }
    }
    if bad > 0 { eprintln!("harness error: the simulator is not deterministic"); 2 } else { 0 }
}
