//! The one PRNG.  SplitMix64 for seeding / mixing, xoshiro256** for the stream.
#[derive(Clone)]
pub struct Rng {
    s: [u64; 4],
}

pub fn splitmix(x: &mut u64) -> u64 {
    *x = x.wrapping_add(0x9E3779B97F4A7C15);
    let mut z = *x;
    z = (z ^ (z >> 30)).wrapping_mul(0xBF58476D1CE4E5B9);
    z = (z ^ (z >> 27)).wrapping_mul(0x94D049BB133111EB);
    z ^ (z >> 31)
}

/// Mixes (seed, property tag, run index) into one stream seed.
pub fn mix(seed: u64, tag: &str, idx: u64) -> u64 {
    let mut h = seed ^ 0xA5A5_5A5A_1234_5678;
    for b in tag.bytes() {
        h = (h ^ b as u64).wrapping_mul(0x100000001B3);
    }
    let mut x = h ^ idx.wrapping_mul(0xD6E8FEB86659FD93);
    splitmix(&mut x)
}

impl Rng {
    pub fn new(seed: u64) -> Rng {
        let mut x = seed;
        Rng { s: [splitmix(&mut x), splitmix(&mut x), splitmix(&mut x), splitmix(&mut x)] }
    }
    pub fn next(&mut self) -> u64 {
        let r = self.s[1].wrapping_mul(5).rotate_left(7).wrapping_mul(9);
        let t = self.s[1] << 17;
        self.s[2] ^= self.s[0];
        self.s[3] ^= self.s[1];
        self.s[1] ^= self.s[2];
        self.s[0] ^= self.s[3];
        self.s[2] ^= t;
        self.s[3] = self.s[3].rotate_left(45);
        r
    }
    /// Uniform in 0..n (n > 0).
    pub fn below(&mut self, n: u64) -> u64 {
        debug_assert!(n > 0);
        ((self.next() as u128 * n as u128) >> 64) as u64
    }
    pub fn range(&mut self, lo: i64, hi: i64) -> i64 {
        lo + self.below((hi - lo + 1) as u64) as i64
    }
    pub fn f64(&mut self) -> f64 {
        (self.next() >> 11) as f64 / (1u64 << 53) as f64
    }
    pub fn chance(&mut self, p: f64) -> bool {
        self.f64() < p
    }
    pub fn pick<'a, T>(&mut self, v: &'a [T]) -> &'a T {
        &v[self.below(v.len() as u64) as usize]
    }
    pub fn bits(&mut self, n: u32) -> u64 {
        if n == 0 { 0 } else { self.next() >> (64 - n) }
    }
    pub fn fork(&mut self) -> Rng {
        Rng::new(self.next())
    }
}
