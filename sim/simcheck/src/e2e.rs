//! End-to-end confirmation stage: the real CLI (debug and release builds of
//! /repo, no stubs) is run on files exported from simulated runs; exit status,
//! stderr, the last counter line and the aircraft listed in the last refresh
//! must agree with what the simulator observed through its seams.  A
//! disagreement is a harness error (the stubs would not be faithful), never a
//! property verdict.
use crate::driver::case_for;
use crate::exec;
use crate::kf::root_dir;
use crate::props::{self, Tier};
use crate::script::{Conn, Op, Script};
use std::path::PathBuf;
use std::process::Command;

fn build_cli(profile_flag: Option<&str>) -> Result<PathBuf, String> {
    let target = root_dir().join("sim").join("target-cli");
    let mut c = Command::new("cargo");
    c.args(["build", "--offline", "--manifest-path", "/repo/Cargo.toml", "--target-dir", target.to_str().unwrap()]);
    if let Some(f) = profile_flag { c.arg(f); }
    // the hook guard must be OFF for the real binary
    c.env("RUSTFLAGS", "").env("CARGO_NET_OFFLINE", "true").current_dir("/");
    let out = c.output().map_err(|e| e.to_string())?;
    if !out.status.success() { return Err(String::from_utf8_lossy(&out.stderr).to_string()); }
    Ok(target.join(if profile_flag.is_some() { "release" } else { "debug" }).join("squitterator"))
}

/// (aircraft listed in the last refresh, last counter line)
fn parse_stdout(out: &str) -> (Vec<String>, String) {
    let last = out.rsplit("\x1b[2J").next().unwrap_or("");
    let mut keys = vec![];
    let mut counter = String::new();
    for l in last.lines() {
        let t = l.trim_end();
        if t.len() >= 7 && t.as_bytes()[..6].iter().all(|c| c.is_ascii_hexdigit()) && t.as_bytes()[6] == b' ' && !t.starts_with("DF") || (t.len() >= 7 && t.starts_with("DF") && t.as_bytes()[..6].iter().all(|c| c.is_ascii_hexdigit()) && t.as_bytes()[6] == b' ' && !t.contains(':')) {
            keys.push(t[..6].to_string());
        } else if t.starts_with("DF") && t.contains(':') {
            counter = t.to_string();
        }
    }
    (keys, counter)
}

pub struct E2e { pub runs: u64, pub lines: u64, pub disagreements: u64, pub with_rows: u64, pub with_counter: u64 }

pub fn run(n: u64, seed: u64) -> i32 {
    match run_for(&["C01", "C13", "C16"], n, seed) {
        Ok(r) if r.disagreements == 0 => 0,
        _ => { eprintln!("harness error: simulated and real execution disagree (or the CLI could not be built)"); 2 }
    }
}

pub fn run_for(pids: &[&str], n: u64, seed: u64) -> Result<E2e, String> {
    exec::process_init();
    let (dbg, rel) = match (build_cli(None), build_cli(Some("--release"))) {
        (Ok(a), Ok(b)) => (a, b),
        (a, b) => { return Err(format!("cannot build the real CLI: {:?} {:?}", a.err(), b.err())); }
    };
    let work = root_dir().join("work");
    let _ = std::fs::create_dir_all(&work);
    let file = work.join(format!("e2e-{}.txt", std::process::id()));
    let (mut runs, mut lines_total, mut disagreements, mut with_rows, mut with_counter) = (0u64, 0u64, 0u64, 0u64, 0u64);
    for pid in pids {
        let prop = props::find(pid).unwrap();
        for i in 0..n {
            let case = case_for(&prop, seed, i, Tier::Quick);
            if case.script.tcp { continue; }
            // clock-independent variant: no simulated time passes, nothing expires, one refresh per frame
            let mut bytes: Vec<u8> = vec![];
            for c in &case.script.conns {
                if let Conn::Accept { ops } = c { for o in ops { if let Op::Data { bytes: b, .. } = o { bytes.extend_from_slice(&b.0); } } }
            }
            let mut args: Vec<String> = case.script.args.iter().filter(|a| !(a.starts_with("--delete-after") || a.starts_with("--update") || a.starts_with("--downlink-log") || a.starts_with("--count-df") || (a.starts_with("--display-info=") && a.contains('Q')))).cloned().collect();
            args.extend(["--delete-after=100000".to_string(), "--update=-1".to_string(), "--count-df".to_string()]);
            let script = Script::file(args.clone(), vec![Op::Data { dt_us: 0, bytes: crate::script::Bytes(bytes.clone()), tag: String::new() }]);
            let h = exec::run(&script);
            if matches!(h.outcome, exec::Outcome::ArgsRejected(_)) { continue; }
            let sim_out: String = h.steps.iter().map(|s| format!("{}{}", s.pre_out, s.out)).collect();
            let (sim_keys, sim_counter) = parse_stdout(&sim_out);
            let table_keys: Vec<String> = h.final_table.keys().map(|k| format!("{:06X}", k)).collect();
            std::fs::write(&file, &bytes).expect("write e2e input");
            runs += 1;
            if !sim_keys.is_empty() { with_rows += 1; }
            if !sim_counter.is_empty() { with_counter += 1; }
            lines_total += bytes.iter().filter(|&&b| b == b'\n').count() as u64;
            for (name, bin) in [("debug", &dbg), ("release", &rel)] {
                let out = Command::new(bin).args(&args).arg(format!("--source={}", file.display())).output().expect("run real CLI");
                let stdout = String::from_utf8_lossy(&out.stdout).to_string();
                let stderr = String::from_utf8_lossy(&out.stderr).to_string();
                let (keys, counter) = parse_stdout(&stdout);
                let sim_ok = matches!(h.outcome, exec::Outcome::FileOk);
                let real_ok = out.status.code() == Some(0) && !stderr.contains("panicked");
                // keys printed are sorted by the -o option; compare as sets against the simulated table
                let mut k1 = keys.clone(); k1.sort();
                let mut k2 = sim_keys.clone(); k2.sort();
                let mut k3 = table_keys.clone(); k3.sort();
                let printed_any = stdout.contains("\x1b[2J") && !keys.is_empty();
                if sim_ok != real_ok || counter != sim_counter || k1 != k2 || (printed_any && k1 != k3) {
                    disagreements += 1;
                    println!("e2e DISAGREEMENT {} run {} ({} build): simulated outcome {:?} / real exit {:?}; counter {:?} vs {:?}; rows {:?} vs {:?} (table {:?}); stderr {:?}", pid, i, name, h.outcome, out.status.code(), sim_counter, counter, k2, k1, k3, stderr.lines().last());
                }
            }
        }
    }
    let _ = std::fs::remove_file(&file);
    println!("e2e: {} exported file scripts ({} lines; {} with rows listed, {} with a counter line) run through the real debug and release CLI: {} disagreements with the simulated runs", runs, lines_total, with_rows, with_counter, disagreements);
    Ok(E2e { runs, lines: lines_total, disagreements, with_rows, with_counter })
}
