//! Known findings: committed list of genuine defects that are recorded rather
//! than repaired.  Read-only at run time.
use crate::script::Violation;
use serde::Deserialize;

#[derive(Clone, Debug, Deserialize)]
pub struct Entry {
    pub status: String, // "known" | "fixed"
    pub property: String,
    #[serde(default)]
    pub id: String,
    #[serde(default)]
    pub rule: String,
    /// Predicate on the violation's witness: every key must match (a JSON array
    /// means "one of").  Never just the rule id.
    #[serde(default, rename = "match")]
    pub matcher: serde_json::Map<String, serde_json::Value>,
    #[serde(default)]
    pub what: String,
    #[serde(default)]
    pub commit: String,
}

#[derive(Clone, Debug, Default)]
pub struct Known {
    pub entries: Vec<Entry>,
}

pub fn root_dir() -> std::path::PathBuf {
    if let Ok(r) = std::env::var("SIMCHECK_ROOT") {
        return r.into();
    }
    // <root>/sim/target/<profile>/simcheck
    let exe = std::env::current_exe().unwrap_or_default();
    exe.ancestors().nth(4).map(|p| p.to_path_buf()).unwrap_or_else(|| "/verif".into())
}

impl Known {
    pub fn load() -> Known {
        let p = root_dir().join("known_findings.json");
        let Ok(s) = std::fs::read_to_string(&p) else { return Known::default() };
        #[derive(Deserialize)]
        struct F {
            findings: Vec<Entry>,
        }
        match serde_json::from_str::<F>(&s) {
            Ok(f) => Known { entries: f.findings },
            Err(e) => {
                eprintln!("harness error: cannot parse {}: {}", p.display(), e);
                std::process::exit(2);
            }
        }
    }

    /// The listed finding (status "known") this violation is an instance of.
    pub fn matches(&self, property: &str, v: &Violation) -> Option<&Entry> {
        self.entries.iter().find(|e| {
            e.status == "known"
                && e.property == property
                && e.rule == v.rule
                && !e.matcher.is_empty()
                && e.matcher.iter().all(|(k, want)| {
                    let got = v.witness.get(k).unwrap_or(&serde_json::Value::Null);
                    match want {
                        serde_json::Value::Array(alts) => alts.contains(got),
                        w => w == got,
                    }
                })
        })
    }
}
