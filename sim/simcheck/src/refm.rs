//! Reference models (specifications, not re-implementations): line
//! classification (R-accept), global CPR decoding (R-cpr), expiry (R-expiry).
#![allow(dead_code)]
use crate::modes;

#[derive(Clone, Debug)]
pub struct Cls {
    /// Number of hexadecimal digits in the line.
    pub digits: usize,
    pub has_non_utf8: bool,
    /// The frame bytes when the digit count is 14/28 (or 26/40 minus 12).
    pub frame: Option<Vec<u8>>,
    pub df: u32,
    pub len_df_ok: bool,
    /// Parity rule of C04 (always true for formats that carry no checkable parity).
    pub parity_ok: bool,
    /// Address for the nine formats of C03.
    pub addr: Option<u32>,
    /// Taken as a frame per C02/C04, address non-zero.  For formats outside the
    /// nine of C03 the address rule is not specified: `accepted` is then
    /// "frame-shaped" and `judged` is false.
    pub accepted: bool,
    pub judged: bool,
}

pub fn hex_digits(line: &[u8]) -> Vec<u8> {
    line.iter()
        .filter_map(|&c| match c {
            b'0'..=b'9' => Some(c - b'0'),
            b'a'..=b'f' => Some(c - b'a' + 10),
            b'A'..=b'F' => Some(c - b'A' + 10),
            _ => None,
        })
        .collect()
}

pub fn classify(line: &[u8]) -> Cls {
    let d = hex_digits(line);
    let has_non_utf8 = std::str::from_utf8(line).is_err();
    let body: Option<&[u8]> = match d.len() {
        14 | 28 => Some(&d[..]),
        26 | 40 => Some(&d[12..]),
        _ => None,
    };
    let mut c = Cls { digits: d.len(), has_non_utf8, frame: None, df: 0, len_df_ok: false, parity_ok: false, addr: None, accepted: false, judged: true };
    let Some(body) = body else { return c };
    let frame: Vec<u8> = body.chunks(2).map(|p| (p[0] << 4) | p[1]).collect();
    c.df = modes::df_of(&frame);
    c.len_df_ok = (c.df < 16) == (frame.len() == 7);
    if c.len_df_ok {
        let syn = modes::syndrome(&frame);
        c.parity_ok = match c.df {
            17 | 18 => syn == 0,
            11 => syn >> 7 == 0,
            _ => true,
        };
        c.addr = modes::address(&frame);
        match c.addr {
            Some(a) => c.accepted = c.parity_ok && a != 0,
            None => {
                c.accepted = c.parity_ok;
                c.judged = false;
            }
        }
    }
    c.frame = Some(frame);
    c
}

// ---------------------------------------------------------------- R-cpr

pub fn haversine_km(lat1: f64, lon1: f64, lat2: f64, lon2: f64) -> f64 {
    let r = 6371.0;
    let (p1, p2) = (lat1.to_radians(), lat2.to_radians());
    let dphi = (lat2 - lat1).to_radians();
    let dl = (lon2 - lon1).to_radians();
    let a = (dphi / 2.0).sin().powi(2) + p1.cos() * p2.cos() * (dl / 2.0).sin().powi(2);
    2.0 * r * a.sqrt().asin()
}

#[derive(Clone, Copy, Debug, PartialEq)]
pub enum CprResult {
    /// Not decodable as a pair: zone-straddling.
    Straddle,
    /// Too close to an NL transition to classify (skipped by the oracle).
    Undetermined,
    Pos(f64, f64),
}

fn fmodp(a: f64, b: f64) -> f64 {
    a - b * (a / b).floor()
}

/// Textbook globally unambiguous airborne decode, anchored on the newer frame
/// (`newer_odd`).  Inputs: even (lat,lon) and odd (lat,lon) 17-bit fields.
pub fn cpr_global(even: (u32, u32), odd: (u32, u32), newer_odd: bool) -> CprResult {
    let (lat0, lon0) = (even.0 as f64 / 131072.0, even.1 as f64 / 131072.0);
    let (lat1, lon1) = (odd.0 as f64 / 131072.0, odd.1 as f64 / 131072.0);
    let dlat0 = 360.0 / 60.0;
    let dlat1 = 360.0 / 59.0;
    let j = (59.0 * lat0 - 60.0 * lat1 + 0.5).floor();
    let mut rlat0 = dlat0 * (fmodp(j, 60.0) + lat0);
    let mut rlat1 = dlat1 * (fmodp(j, 59.0) + lat1);
    if rlat0 >= 270.0 {
        rlat0 -= 360.0;
    }
    if rlat1 >= 270.0 {
        rlat1 -= 360.0;
    }
    for r in [rlat0, rlat1] {
        let a = r.abs();
        if a > 87.0 - 1e-6 && a < 87.0 + 1e-6 {
            return CprResult::Undetermined;
        }
        if a < 87.0 {
            let n = modes::nl_formula(a);
            for k in [n, n + 1] {
                if (2..=59).contains(&k) && (modes::nl_transition(k) - a).abs() < 1e-6 {
                    return CprResult::Undetermined;
                }
            }
        }
    }
    let (nl0, nl1) = (modes::nl_formula(rlat0), modes::nl_formula(rlat1));
    if nl0 != nl1 {
        return CprResult::Straddle;
    }
    let nl = nl0;
    let (lat, ni, lonf) = if newer_odd { (rlat1, (nl - 1).max(1), lon1) } else { (rlat0, nl.max(1), lon0) };
    let m = (lon0 * (nl - 1) as f64 - lon1 * nl as f64 + 0.5).floor();
    let mut lon = (360.0 / ni as f64) * (fmodp(m, ni as f64) + lonf);
    if lon >= 180.0 {
        lon -= 360.0;
    }
    CprResult::Pos(lat, lon)
}

/// Parses "lat,lon" with blanks ignored (the documented observer format).
pub fn parse_observer(s: &str) -> Option<(f64, f64)> {
    let parts: Vec<&str> = s.split(',').collect();
    if parts.len() != 2 {
        return None;
    }
    let f = |p: &str| p.chars().filter(|c| !c.is_whitespace()).collect::<String>().parse::<f64>().ok();
    Some((f(parts[0])?, f(parts[1])?))
}

#[cfg(test)]
mod tests {
    use super::*;
    #[test]
    fn riddle_example() {
        // 8D40621D58C382D690C8AC2863A7 (even) / 8D40621D58C386435CC412692AD6 (odd), newer = even
        let r = cpr_global((93000, 51372), (74158, 50194), false);
        match r {
            CprResult::Pos(lat, lon) => {
                assert!((lat - 52.2572).abs() < 1e-4, "{lat}");
                assert!((lon - 3.91937).abs() < 1e-4, "{lon}");
            }
            _ => panic!("{:?}", r),
        }
    }
    #[test]
    fn classify_basic() {
        let c = classify(b"*8D40621D58C382D690C8AC2863A7;");
        assert!(c.accepted && c.df == 17 && c.addr == Some(0x40621D));
        let c = classify(b"8D40621D58C382D690C8AC2863A6");
        assert!(!c.accepted && c.frame.is_some());
        let c = classify(b"8D40621D58C382");
        assert!(!c.accepted && !c.len_df_ok);
        let c = classify(b"@009736E2736B8D40717EF82100020049B8A8887A;");
        assert_eq!(c.digits, 40);
        assert!(c.frame.is_some());
    }
}

// ---------------------------------------------------------------- R-expiry

/// Per address: time of the last accepted frame and the number of accepted
/// frames (of any aircraft) processed while it was stale.  Encodes only the
/// bound the property states (12 frames), not the sweep period.
#[derive(Clone, Debug, Default)]
pub struct Expiry {
    pub d: i64,
    pub last: std::collections::BTreeMap<u32, i64>,
    pub stale_frames: std::collections::BTreeMap<u32, u32>,
    /// Addresses seen stale at some accepted frame since they were last heard.
    pub was_stale: std::collections::BTreeSet<u32>,
    /// Earliest clock reading at which the row may have been stamped last: its latest judged frame, or any
    /// later frame whose address the reference cannot name (formats outside the nine).
    pub low: std::collections::BTreeMap<u32, i64>,
}

impl Expiry {
    pub fn new(d: i64) -> Expiry {
        Expiry { d, ..Default::default() }
    }
    pub fn is_stale(&self, addr: u32, now_us: i64) -> bool {
        match self.last.get(&addr) {
            Some(&t) => (now_us - t).div_euclid(1_000_000) >= self.d,
            None => true,
        }
    }
    /// An accepted frame of `addr` is processed at `t_us`.
    pub fn accept(&mut self, addr: u32, t_us: i64) {
        let others: Vec<u32> = self.last.keys().copied().filter(|&a| a != addr).collect();
        for a in others {
            if self.is_stale(a, t_us) {
                *self.stale_frames.entry(a).or_insert(0) += 1;
                // a sweep may have taken it: from now on it need not be listed until it is heard again
                // (matters only when the clock is set back afterwards and the row looks young again)
                self.was_stale.insert(a);
            } else {
                // not stale at this frame (the clock went back): the count of consecutive stale frames restarts
                self.stale_frames.remove(&a);
            }
        }
        self.last.insert(addr, t_us);
        self.low.insert(addr, t_us);
        self.stale_frames.remove(&addr);
        self.was_stale.remove(&addr);
    }
    /// A frame was applied whose address the reference cannot name: any row may have been re-stamped at `t_us`.
    pub fn note_unjudged(&mut self, t_us: i64) {
        for v in self.low.values_mut() { *v = (*v).min(t_us); }
    }
    /// Stale under at least one of the stamps the row may carry (equals `is_stale` when the clock never went back).
    pub fn maybe_stale(&self, addr: u32, now_us: i64) -> bool {
        self.is_stale(addr, now_us) || self.low.get(&addr).map(|&t| (now_us - t).div_euclid(1_000_000) >= self.d).unwrap_or(true)
    }
    /// A new connection starts: the implementation's sweep counter restarts; the
    /// 12-frame bound is only judged within one connection.
    pub fn reconnect(&mut self) {
        self.stale_frames.clear();
    }
    pub fn must_be_present(&self, now_us: i64) -> Vec<u32> {
        self.last.keys().copied().filter(|&a| !self.is_stale(a, now_us) && !self.was_stale.contains(&a)).collect()
    }
    pub fn must_be_absent(&self, now_us: i64) -> Vec<u32> {
        self.last.keys().copied().filter(|&a| self.is_stale(a, now_us) && self.stale_frames.get(&a).copied().unwrap_or(0) >= 12).collect()
    }
    pub fn forget(&mut self, addr: u32) {
        self.last.remove(&addr);
        self.low.remove(&addr);
        self.stale_frames.remove(&addr);
        self.was_stale.remove(&addr);
    }
}
