//! What a single frame carries, according to the decoder's own public,
//! state-free decode `DF::from_message` (C11/C19 are about *routing* values
//! into rows over a history; field decoding itself belongs to C05-C07/C09).
use squitterator::{Downlink, DF};

#[derive(Clone, Debug, Default)]
pub struct Carried {
    pub df: u32,
    /// DF17/18: type code and subtype.
    pub tc: u32,
    pub st: u32,
    pub altitude: Option<u32>,
    pub squawk: Option<u32>,
    pub ais: Option<String>,
    pub track: Option<u32>,
    pub grspeed: Option<u32>,
    pub vrate: Option<i32>,
    pub heading: Option<u32>,
    /// TC19: GNSS-minus-barometric height difference (ft); TC20-22: GNSS height.
    pub altitude_delta: Option<i32>,
    pub altitude_gnss: Option<u32>,
    pub ss: Option<char>,
    pub version: Option<u32>,
    pub ca: Option<u32>,
    pub caps: Option<(u32, [bool; 5])>,
    /// Comm-B register the stateless decode inferred: 20, 30, 17, 40, 50, 60 or 0.
    pub reg: u32,
}

pub fn norm_ais(a: &Option<String>) -> Option<String> {
    match a {
        Some(s) if s.is_empty() => None,
        x => x.clone(),
    }
}

pub fn carried(line: &[u8]) -> Option<Carried> {
    let text = String::from_utf8_lossy(line);
    let msg = squitterator::get_message(&text)?;
    let df = squitterator::get_downlink_format(&msg)?;
    let d = DF::from_message(&msg).ok()?;
    let mut c = Carried { df, ..Default::default() };
    match &d {
        DF::SRT(v) => {
            c.altitude = v.altitude;
            c.squawk = v.squawk;
            c.ca = v.capability;
        }
        DF::EXT(v) => {
            c.tc = v.message_type.0;
            c.st = v.message_type.1;
            c.altitude = v.altitude;
            c.ais = v.ais.clone();
            c.track = v.track;
            c.grspeed = v.grspeed;
            c.vrate = v.vrate;
            c.heading = v.heading;
            c.altitude_delta = v.altitude_delta;
            c.altitude_gnss = v.altitude_gnss;
            c.ss = v.surveillance_status;
            c.version = v.adsb_version;
            c.ca = Some(v.capability);
        }
        DF::MDS(v) => {
            c.altitude = v.altitude;
            c.ais = v.ais.clone();
            c.track = v.track;
            c.grspeed = v.grspeed;
            c.vrate = v.vrate;
            c.heading = v.heading;
            if let Some(cap) = &v.capability {
                c.caps = Some((cap.flags, [cap.bds20, cap.bds40, cap.bds44, cap.bds50, cap.bds60]));
            }
            c.reg = if v.ais.is_some() { 20 } else if v.threat_encounter.is_some() { 30 } else if v.capability.is_some() { 17 } else if v.selected_altitude.is_some() { 40 } else if v.track_source.is_some() { 50 } else if v.heading_source.is_some() { 60 } else { 0 };
        }
    }
    if df == 21 || df == 5 {
        // identity replies: squawk comes from the ID field (Mds does not keep it)
        if c.squawk.is_none() && df == 21 {
            // decode through a DF5-shaped view is not available; leave None = "not known to the stateless decode"
        }
    }
    Some(c)
}
