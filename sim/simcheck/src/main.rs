//! simcheck - deterministic simulation of squitterator with fault injection.
mod carried;
mod driver;
mod e2e;
mod ehs;
mod exec;
mod gen;
mod kf;
mod modes;
mod props;
mod refm;
mod rng;
mod row;
mod script;
mod stats;

use props::Tier;
use std::time::Duration;

fn env_u64(k: &str) -> Option<u64> {
    std::env::var(k).ok().and_then(|v| v.trim().parse().ok())
}

fn usage() -> ! {
    eprintln!("usage: simcheck run <PROP> [--tier quick|thorough] [--runs N] [--budget-s S] [--jobs J] [--seed S]\n       simcheck replay <file>\n       simcheck gen <PROP> <run> [--seed S]\n       simcheck selftest determinism [PROP...]\n       simcheck list");
    std::process::exit(2)
}

fn main() {
    let a: Vec<String> = std::env::args().collect();
    if a.len() < 2 { usage(); }
    let opt = |name: &str| -> Option<String> { a.iter().position(|x| x == name).and_then(|i| a.get(i + 1).cloned()) };
    let seed = opt("--seed").and_then(|s| s.parse().ok()).or_else(|| env_u64("VERIF_SEED")).unwrap_or(driver::DEFAULT_SEED);
    match a[1].as_str() {
        "list" => {
            for p in props::all() { println!("{}", p.id); }
        }
        "run" => {
            let Some(prop) = a.get(2).and_then(|id| props::find(id)) else { usage() };
            let tier_s = opt("--tier").or_else(|| std::env::var("VERIF_TIER").ok()).unwrap_or_else(|| "quick".into());
            let tier = if tier_s == "thorough" { Tier::Thorough } else { Tier::Quick };
            let jobs = opt("--jobs").and_then(|s| s.parse().ok()).or_else(|| env_u64("VERIF_JOBS").map(|v| v as usize)).unwrap_or(16).max(1);
            let budget_s = opt("--budget-s").and_then(|s| s.parse().ok()).or_else(|| env_u64("VERIF_BUDGET_S")).unwrap_or(if tier == Tier::Quick { 120 } else { 600 });
            let runs = opt("--runs").and_then(|s| s.parse().ok()).unwrap_or(if tier == Tier::Quick { prop.quick_runs } else { u64::MAX / 4 });
            let cfg = driver::BatchCfg { tier, seed, jobs, runs, budget: Duration::from_secs(budget_s) };
            println!("simcheck {} tier={} seed={} jobs={} runs<={} budget={}s", prop.id, tier_s, seed, jobs, if runs > u64::MAX / 8 { "unbounded".to_string() } else { runs.to_string() }, budget_s);
            std::process::exit(driver::run_batch(&prop, &cfg));
        }
        "worker" => {
            // worker <PROP> <seed> <tier> <start> <stride> <max_runs> <deadline_s> <out>
            if a.len() < 10 { usage(); }
            let prop = props::find(&a[2]).expect("prop");
            let tier = if a[4] == "thorough" { Tier::Thorough } else { Tier::Quick };
            driver::worker(&prop, a[3].parse().unwrap(), tier, a[5].parse().unwrap(), a[6].parse().unwrap(), a[7].parse().unwrap(), Duration::from_secs(a[8].parse().unwrap()), &a[9]);
        }
        "replay" => {
            let Some(p) = a.get(2) else { usage() };
            std::process::exit(driver::replay(p));
        }
        "minimise" => {
            if a.len() < 4 { usage(); }
            std::process::exit(driver::minimise_file(&a[2], &a[3]));
        }
        "gen" => {
            let Some(prop) = a.get(2).and_then(|id| props::find(id)) else { usage() };
            let idx: u64 = a.get(3).and_then(|s| s.parse().ok()).unwrap_or(0);
            let case = driver::case_for(&prop, seed, idx, Tier::Quick);
            println!("{}", serde_json::to_string_pretty(&case).unwrap());
        }
        "one" => {
            // one <PROP> <run>: generate, execute and judge a single run in this process
            let Some(prop) = a.get(2).and_then(|id| props::find(id)) else { usage() };
            let idx: u64 = a.get(3).and_then(|s| s.parse().ok()).unwrap_or(0);
            exec::process_init();
            let case = driver::case_for(&prop, seed, idx, Tier::Quick);
            let mut st = stats::Stats::default();
            let vs = (prop.check)(&case, &mut st);
            if a.iter().any(|x| x == "--case") { println!("{}", serde_json::to_string_pretty(&case).unwrap()); }
            for v in &vs { println!("rule={} step={} {}\n  witness={}", v.rule, v.step, v.msg, v.witness); }
            println!("{} violation(s); outcomes={:?}", vs.len(), st.outcomes);
        }
        "trace" => {
            // trace <PROP> <run> | trace <replay-file>: print the history of the primary script
            exec::process_init();
            let case = if let Some(prop) = a.get(2).and_then(|id| props::find(id)) {
                driver::case_for(&prop, seed, a.get(3).and_then(|s| s.parse().ok()).unwrap_or(0), Tier::Quick)
            } else {
                let rf: script::ReplayFile = serde_json::from_slice(&std::fs::read(&a[2]).expect("read")).expect("parse");
                rf.case
            };
            println!("args={:?} tcp={} log={} tick={}", case.script.args, case.script.tcp, case.script.log_level, case.script.tick_us);
            let h = exec::run(&case.script);
            for e in &h.seam { if !matches!(e, exec::SeamEv::Read { .. }) { println!("seam {:?}", e); } }
            for (i, s) in h.steps.iter().enumerate() {
                let keys: Vec<String> = s.after.keys().map(|k| format!("{:06X}", k)).collect();
                println!("#{} c{} o{} t={:.6} {:?} tag={} lines={:?} rows={:?} out={}B", i, s.conn, s.op, (s.t_us - exec::T0_US) as f64 / 1e6, s.kind, s.tag, s.lines.iter().map(|l| script::escape(l)).collect::<Vec<_>>(), keys, s.out.len());
                if a.iter().any(|x| x == "--rows") { for r in s.after.values() { println!("     {}", serde_json::to_string(r).unwrap()); } }
                if a.iter().any(|x| x == "--out") && !s.out.is_empty() { println!("{}", s.out); }
            }
            println!("outcome={:?} end_t={:.6} unread_ops={}", h.outcome, (h.end_t_us - exec::T0_US) as f64 / 1e6, h.unread_ops);
        }
        "e2e" => {
            let n = opt("--n").and_then(|s| s.parse().ok()).unwrap_or(100);
            std::process::exit(e2e::run(n, seed));
        }
        "selftest" => {
            let n = opt("--n").and_then(|s| s.parse().ok()).unwrap_or(2000);
            let ids: Vec<String> = a.iter().skip(3).filter(|x| x.starts_with('C')).cloned().collect();
            std::process::exit(driver::selftest_determinism(&ids, n, seed));
        }
        "digest" => {
            // digest <PROP> <seed> <start> <stride> <n>  -> one line per run
            let prop = props::find(&a[2]).expect("prop");
            for (i, d) in driver::digest_runs(&prop, a[3].parse().unwrap(), a[4].parse().unwrap(), a[5].parse().unwrap(), a[6].parse().unwrap()) {
                println!("{} {:016x}", i, d);
            }
        }
        _ => usage(),
    }
}
