//! Executor: plays one script against the real reader thread of /repo through
//! the seams (clock shim, verif_seam world) and records the history.
use crate::row::{project, Snapshot};
use crate::script::{Conn, Op, Script};
use clap::Parser;
use squitterator::verif_seam::{self, World};
use squitterator::{Args, Planes};
use std::io;
use std::sync::{Arc, Mutex};
use std::time::Duration;

pub const T0_US: i64 = simchrono::EPOCH_US;

struct SimEnd;
struct SimWedge(String);

#[derive(Clone, Debug, PartialEq)]
pub enum StepKind {
    Data,
    Eof,
    Err(String),
}

/// Effect of one feed op: everything the decoder did between receiving it and
/// asking the world for something else.
#[derive(Clone, Debug)]
pub struct Step {
    pub conn: usize,
    pub op: usize,
    pub kind: StepKind,
    /// Simulated clock while the lines of this step were processed.
    pub t_us: i64,
    /// Lines completed by this op (without the terminating `\n`).
    pub lines: Vec<Vec<u8>>,
    /// Partial line thrown away because the read failed.
    pub dropped_partial: Option<Vec<u8>>,
    pub tag: String,
    /// Printed between the previous step and this op's delivery (legend).
    pub pre_out: String,
    /// Printed while this step's lines were processed.
    pub out: String,
    pub after: Arc<Snapshot>,
}

#[derive(Clone, Debug, PartialEq)]
pub enum SeamEv {
    Connect { t_us: i64, conn: usize, ok: bool },
    ConnectEnd { t_us: i64 },
    Open { t_us: i64, ok: bool },
    Sleep { t_us: i64, d_us: i64 },
    Read { t_us: i64, conn: usize, op: usize, n: usize },
    ReadTimeout { t_us: i64, conn: usize },
}

#[derive(Clone, Debug, PartialEq)]
pub enum Outcome {
    /// File source: reader returned Ok after the world served EOF.
    FileOk,
    /// File source: returned Ok *before* the world served EOF.
    FileEarly,
    /// Reader returned an error.
    ReturnedErr(String),
    /// TCP source: reader returned (it never should).
    ReturnedTcp,
    /// TCP source: script exhausted, run ended by the simulator.
    SimEnd,
    Panic(String),
    Wedge(String),
    /// clap rejected the option vector (argument validation, not processing).
    ArgsRejected(String),
}

#[derive(Clone, Debug)]
pub struct History {
    pub steps: Vec<Step>,
    pub seam: Vec<SeamEv>,
    pub outcome: Outcome,
    pub end_t_us: i64,
    /// Table when the run ended (== last step's `after` when there are steps).
    pub final_table: Arc<Snapshot>,
    /// Bytes of the script the reader never asked for.
    pub unread_ops: usize,
    pub eof_served: bool,
    pub now_calls: u64,
    /// True when the worker process must not run anything else (watchdog fired).
    pub tainted: bool,
}

struct Trace {
    steps: Vec<Step>,
    seam: Vec<SeamEv>,
    eof_served: bool,
    consumed_ops: usize,
}

/// Takes a snapshot of the table; a closure so that the harness does not name the map type
/// (a refactoring of the public table to another map must not break the harness).
type Table = Arc<dyn Fn() -> Snapshot + Send + Sync>;

struct SimWorld {
    conns: Vec<Conn>,
    tcp: bool,
    table: Table,
    trace: Arc<Mutex<Trace>>,
    next_conn: usize,
    cur_conn: Option<usize>,
    next_op: usize,
    active: Option<(Vec<u8>, usize)>, // data being delivered, offset
    pending: Vec<u8>,                 // bytes of the current unterminated line
    eof_sent: bool,
    /// A fatal read error was returned on the current connection: every further read fails the same way
    /// (a dead socket / unreadable file does not heal; only a reader that stops reading gets away).
    dead: Option<String>,
    /// SO_RCVTIMEO of the current connection, if the reader set one.
    read_timeout_us: Option<i64>,
    open_step: Option<Step>,
    out: String,
    calls: u64,
    budget: u64,
}

/// The error a real socket / file call would return: kinds that come from the kernel carry their
/// errno (as `std` builds them), synthetic kinds and name-lookup failures carry none.
fn error_of(s: &str) -> io::Error {
    use io::ErrorKind::*;
    let os = |code: i32| io::Error::from_raw_os_error(code);
    match s {
        "ConnectionRefused" => os(111),
        "ConnectionReset" => os(104),
        "ConnectionAborted" => os(103),
        "NotConnected" => os(107),
        "TimedOut" => os(110),
        "BrokenPipe" => os(32),
        "Interrupted" => os(4),
        "WouldBlock" => os(11),
        "NotFound" => os(2),
        "PermissionDenied" => os(13),
        "AddrNotAvailable" => os(99),
        "AddrInUse" => os(98),
        "HostUnreachable" => os(113),
        "NetworkUnreachable" => os(101),
        "InvalidInput" => os(22),
        "OutOfMemory" => os(12),
        "UnexpectedEof" => io::Error::new(UnexpectedEof, "simulated: unexpected end of file"),
        "InvalidData" => io::Error::new(InvalidData, "simulated: invalid data"),
        "Unsupported" => io::Error::new(Unsupported, "simulated: unsupported"),
        "LookupFailed" => io::Error::new(Other, "failed to lookup address information: Temporary failure in name resolution"),
        _ => io::Error::new(Other, "simulated: other error"),
    }
}

fn kind_of(s: &str) -> io::ErrorKind {
    error_of(s).kind()
}

pub fn snapshot_of(table: &Table) -> Snapshot {
    table()
}

impl SimWorld {
    fn now(&self) -> i64 {
        simchrono::sim_now_us()
    }
    fn advance(&mut self, dt: i64) {
        // the simulated clock stays inside what chrono can represent (about the year 128 000): a program that
        // sleeps for geological times is judged on what it does, not on an overflow inside the simulator
        const MAX_CLOCK_US: i64 = 4_000_000_000_000_000_000;
        simchrono::sim_set_now_us(simchrono::sim_now_us().saturating_add(dt).min(MAX_CLOCK_US));
    }
    fn tick(&mut self, what: &str) {
        self.calls += 1;
        if self.calls > self.budget {
            let msg = format!("seam-call budget {} exceeded in {}", self.budget, what);
            std::panic::resume_unwind(Box::new(SimWedge(msg)));
        }
    }
    fn close_step(&mut self) {
        if let Some(mut st) = self.open_step.take() {
            st.out = std::mem::take(&mut self.out);
            st.after = Arc::new(snapshot_of(&self.table));
            self.trace.lock().unwrap().steps.push(st);
        }
    }
    fn new_step(&mut self, conn: usize, op: usize, kind: StepKind, tag: String) -> Step {
        Step {
            conn,
            op,
            kind,
            t_us: self.now(),
            lines: vec![],
            dropped_partial: None,
            tag,
            pre_out: std::mem::take(&mut self.out),
            out: String::new(),
            after: Arc::new(Snapshot::new()),
        }
    }
    fn end(&mut self) -> ! {
        self.close_step();
        std::panic::resume_unwind(Box::new(SimEnd))
    }
}

impl Drop for SimWorld {
    fn drop(&mut self) {
        // a file source ends without another seam call: close the last step here
        self.close_step();
    }
}

impl World for SimWorld {
    fn connect(&mut self, _addr: &str) -> io::Result<u64> {
        self.tick("connect");
        self.close_step();
        self.active = None;
        self.pending.clear();
        self.eof_sent = false;
        self.dead = None;
        self.read_timeout_us = None;
        let idx = self.next_conn;
        if idx >= self.conns.len() {
            let t = self.now();
            self.trace.lock().unwrap().seam.push(SeamEv::ConnectEnd { t_us: t });
            self.end();
        }
        self.next_conn += 1;
        let t = self.now();
        match &self.conns[idx] {
            Conn::Refuse { kind, dt_us } => {
                let (kind, dt_us) = (kind.clone(), *dt_us);
                if dt_us != 0 { self.advance(dt_us); }
                let t = self.now();
                let kind = &kind;
                let mut tr = self.trace.lock().unwrap();
                tr.seam.push(SeamEv::Connect { t_us: t, conn: idx, ok: false });
                tr.consumed_ops += 1;
                Err(error_of(kind))
            }
            Conn::Accept { .. } => {
                self.trace.lock().unwrap().seam.push(SeamEv::Connect { t_us: t, conn: idx, ok: true });
                self.cur_conn = Some(idx);
                self.next_op = 0;
                Ok(idx as u64)
            }
        }
    }

    fn open(&mut self, _path: &str) -> io::Result<u64> {
        self.tick("open");
        let t = self.now();
        let idx = self.next_conn;
        self.next_conn += 1;
        match self.conns.get(idx) {
            Some(Conn::Accept { .. }) => {
                self.trace.lock().unwrap().seam.push(SeamEv::Open { t_us: t, ok: true });
                self.cur_conn = Some(idx);
                self.next_op = 0;
                Ok(idx as u64)
            }
            Some(Conn::Refuse { kind, .. }) => {
                self.trace.lock().unwrap().seam.push(SeamEv::Open { t_us: t, ok: false });
                Err(error_of(kind))
            }
            None => Err(io::ErrorKind::NotFound.into()),
        }
    }

    fn read(&mut self, id: u64, buf: &mut [u8]) -> io::Result<usize> {
        self.tick("read");
        let conn = id as usize;
        if buf.is_empty() {
            return Ok(0);
        }
        loop {
            if let Some((data, off)) = &mut self.active {
                if *off < data.len() {
                    let n = (data.len() - *off).min(buf.len());
                    buf[..n].copy_from_slice(&data[*off..*off + n]);
                    *off += n;
                    let t = simchrono::sim_now_us();
                    let op = self.next_op - 1;
                    self.trace.lock().unwrap().seam.push(SeamEv::Read { t_us: t, conn, op, n });
                    return Ok(n);
                }
                self.active = None;
            }
            if self.eof_sent {
                return Ok(0);
            }
            if let Some(kind) = &self.dead {
                return Err(error_of(kind));
            }
            // the decoder has finished everything delivered so far
            self.close_step();
            let n_ops = match &self.conns[conn] {
                Conn::Accept { ops } => ops.len(),
                _ => 0,
            };
            if self.next_op >= n_ops {
                if self.tcp && conn + 1 == self.conns.len() {
                    self.end();
                }
                // implicit end of stream
                let mut st = self.new_step(conn, self.next_op, StepKind::Eof, "implicit-eof".into());
                if !self.pending.is_empty() {
                    st.lines.push(std::mem::take(&mut self.pending));
                }
                self.open_step = Some(st);
                self.eof_sent = true;
                self.trace.lock().unwrap().eof_served = true;
                return Ok(0);
            }
            let op_idx = self.next_op;
            // a receive time-out set by the reader fires before data that is further away than that
            if let Some(to) = self.read_timeout_us {
                let dt = match &self.conns[conn] { Conn::Accept { ops } => ops[op_idx].dt(), _ => 0 };
                if to > 0 && dt > to {
                    if let Conn::Accept { ops } = &mut self.conns[conn] { ops[op_idx].set_dt(dt - to); }
                    self.advance(to);
                    let t = self.now();
                    self.trace.lock().unwrap().seam.push(SeamEv::ReadTimeout { t_us: t, conn });
                    return Err(error_of("WouldBlock"));
                }
            }
            self.next_op += 1;
            self.trace.lock().unwrap().consumed_ops += 1;
            let op = match &self.conns[conn] {
                Conn::Accept { ops } => ops[op_idx].clone(),
                _ => unreachable!(),
            };
            self.advance(op.dt());
            match op {
                Op::Data { bytes, tag, .. } => {
                    if bytes.0.is_empty() {
                        continue; // only time passes
                    }
                    let mut st = self.new_step(conn, op_idx, StepKind::Data, tag);
                    for &b in &bytes.0 {
                        if b == b'\n' {
                            st.lines.push(std::mem::take(&mut self.pending));
                        } else {
                            self.pending.push(b);
                        }
                    }
                    self.open_step = Some(st);
                    self.active = Some((bytes.0, 0));
                }
                Op::Err { kind, .. } => {
                    let k = kind_of(&kind);
                    if k == io::ErrorKind::Interrupted {
                        // transparent to BufRead (retried); no step
                        return Err(error_of(&kind));
                    }
                    let mut st = self.new_step(conn, op_idx, StepKind::Err(kind.clone()), kind.clone());
                    if !self.pending.is_empty() {
                        st.dropped_partial = Some(std::mem::take(&mut self.pending));
                    }
                    self.open_step = Some(st);
                    if !matches!(k, io::ErrorKind::TimedOut | io::ErrorKind::WouldBlock) {
                        self.dead = Some(kind.clone());
                    }
                    return Err(error_of(&kind));
                }
                Op::Eof { .. } => {
                    let mut st = self.new_step(conn, op_idx, StepKind::Eof, "eof".into());
                    if !self.pending.is_empty() {
                        st.lines.push(std::mem::take(&mut self.pending));
                    }
                    self.open_step = Some(st);
                    self.eof_sent = true;
                    self.trace.lock().unwrap().eof_served = true;
                    return Ok(0);
                }
            }
        }
    }

    fn sleep(&mut self, d: Duration) {
        self.tick("sleep");
        self.close_step();
        let t = self.now();
        let d_us = d.as_micros().min(i64::MAX as u128 / 4) as i64;
        self.trace.lock().unwrap().seam.push(SeamEv::Sleep { t_us: t, d_us });
        self.advance(d_us);
    }

    fn print(&mut self, s: &str) {
        self.out.push_str(s);
    }

    fn set_read_timeout(&mut self, _id: u64, d: Option<Duration>) {
        self.read_timeout_us = d.map(|d| d.as_micros().min(i64::MAX as u128 / 4) as i64);
    }
}

// ------------------------------------------------------------------ process-wide setup

static PANIC_MSG: Mutex<Option<String>> = Mutex::new(None);

struct Sink;
struct Null(usize);
impl std::fmt::Write for Null {
    fn write_str(&mut self, s: &str) -> std::fmt::Result {
        self.0 += s.len();
        Ok(())
    }
}
impl log::Log for Sink {
    fn enabled(&self, _: &log::Metadata) -> bool {
        true
    }
    fn log(&self, record: &log::Record) {
        // evaluate the arguments (they index into frames), keep nothing
        use std::fmt::Write;
        let mut n = Null(0);
        let _ = write!(n, "{}", record.args());
    }
    fn flush(&self) {}
}
static SINK: Sink = Sink;

/// 0 = no logger installed in this process yet, 1 = the harness sink, 2 = the program's own logger (-l)
static LOGGER: std::sync::atomic::AtomicU8 = std::sync::atomic::AtomicU8::new(0);

/// Installs a logger for this run the way `main` would: with `-l <file>` the program's own
/// `initialize_logger` (env_logger writing to that file, level from RUST_LOG), otherwise the harness sink.
/// A process can only ever have one logger; later runs in the same process keep the first one.
fn install_logger(error_log: &Option<String>, level: &str) -> Result<(), String> {
    use std::sync::atomic::Ordering::SeqCst;
    if LOGGER.load(SeqCst) == 0 {
        match error_log {
            Some(path) => {
                std::env::set_var("RUST_LOG", if level == "off" { "error" } else { level });
                squitterator::initialize_logger(path).map_err(|e| format!("{}", e))?;
                LOGGER.store(2, SeqCst);
            }
            None => {
                let _ = log::set_logger(&SINK);
                LOGGER.store(1, SeqCst);
            }
        }
    }
    Ok(())
}

pub fn process_init() {
    log::set_max_level(log::LevelFilter::Off);
    std::panic::set_hook(Box::new(|info| {
        let loc = info.location().map(|l| format!("{}:{}", l.file(), l.line())).unwrap_or_default();
        let msg = if let Some(s) = info.payload().downcast_ref::<&str>() {
            s.to_string()
        } else if let Some(s) = info.payload().downcast_ref::<String>() {
            s.clone()
        } else {
            "<non-string panic>".to_string()
        };
        *PANIC_MSG.lock().unwrap_or_else(|e| e.into_inner()) = Some(format!("{} at {}", msg, loc));
    }));
}

fn level_of(s: &str) -> log::LevelFilter {
    match s {
        "error" => log::LevelFilter::Error,
        "warn" => log::LevelFilter::Warn,
        "info" => log::LevelFilter::Info,
        "debug" => log::LevelFilter::Debug,
        "trace" => log::LevelFilter::Trace,
        _ => log::LevelFilter::Off,
    }
}

pub const WATCHDOG: Duration = Duration::from_secs(8);

/// Runs one script.  One run at a time per process (world and clock are process-global).
pub fn run(script: &Script) -> History {
    let mut argv: Vec<String> = vec!["squitterator".into()];
    argv.extend(script.args.iter().cloned());
    if script.tcp {
        argv.push("--tcp=sim:30002".into());
    } else {
        argv.push("--source=sim-input".into());
    }
    let empty = |outcome: Outcome| History {
        steps: vec![],
        seam: vec![],
        outcome,
        end_t_us: T0_US,
        final_table: Arc::new(Snapshot::new()),
        unread_ops: script.n_ops(),
        eof_served: false,
        now_calls: 0,
        tainted: false,
    };
    if is_tainted() {
        // a reader thread of an earlier run is still stuck in this process
        return empty(Outcome::Wedge("process tainted by an earlier hang; run not executed".into()));
    }
    let args = match Args::try_parse_from(&argv) {
        Ok(a) => a,
        Err(e) => return empty(Outcome::ArgsRejected(e.kind().to_string())),
    };
    // same order as main(): observer, table, reader thread
    squitterator::set_observer_coords_from_str("0,0");
    if let Some(c) = &args.observer_coord {
        squitterator::set_observer_coords_from_str(c);
    }
    simchrono::sim_reset(T0_US);
    simchrono::sim_set_tick_us(script.tick_us);
    // main(): the logger comes first
    if let Err(e) = install_logger(&args.error_log, &script.log_level) {
        return empty(Outcome::ArgsRejected(format!("logger: {}", e)));
    }
    if LOGGER.load(std::sync::atomic::Ordering::SeqCst) == 2 {
        if args.error_log.is_some() { log::set_max_level(level_of(if script.log_level == "off" { "error" } else { &script.log_level })); } else { log::set_max_level(log::LevelFilter::Off); }
    } else {
        log::set_max_level(level_of(&script.log_level));
    }
    *PANIC_MSG.lock().unwrap_or_else(|e| e.into_inner()) = None;

    let planes = Planes::new();
    let shared = planes.aircrafts.clone();
    let table: Table = Arc::new(move || {
        let guard = shared.read().unwrap_or_else(|e| e.into_inner());
        guard.iter().map(|(k, p)| (*k, project(p))).collect()
    });
    let trace = Arc::new(Mutex::new(Trace { steps: vec![], seam: vec![], eof_served: false, consumed_ops: 0 }));
    let total_bytes: usize = script
        .conns
        .iter()
        .map(|c| match c {
            Conn::Accept { ops } => ops.iter().map(|o| if let Op::Data { bytes, .. } = o { bytes.0.len() } else { 0 }).sum(),
            _ => 0,
        })
        .sum();
    // generous enough for a reader that asks for one byte at a time; an endless retry loop still trips it
    let budget = 10_000 + 16 * script.n_ops() as u64 + 4 * script.conns.len() as u64 + 2 * total_bytes as u64;
    let world = SimWorld {
        conns: script.conns.clone(),
        tcp: script.tcp,
        table: table.clone(),
        trace: trace.clone(),
        next_conn: 0,
        cur_conn: None,
        next_op: 0,
        active: None,
        pending: vec![],
        eof_sent: false,
        dead: None,
        read_timeout_us: None,
        open_step: None,
        out: String::new(),
        calls: 0,
        budget,
    };
    verif_seam::install(Some(Box::new(world)));

    let handle = squitterator::spawn_reader_thread(Arc::new(args), planes);
    let (tx, rx) = std::sync::mpsc::channel();
    std::thread::spawn(move || {
        let _ = tx.send(handle.join());
    });
    let mut tainted = false;
    let joined = rx.recv_timeout(WATCHDOG);
    let outcome = match joined {
        Ok(Ok(Ok(()))) => {
            if script.tcp {
                Outcome::ReturnedTcp
            } else if trace.lock().unwrap().eof_served {
                Outcome::FileOk
            } else {
                Outcome::FileEarly
            }
        }
        Ok(Ok(Err(e))) => Outcome::ReturnedErr(format!("{:?}: {}", e.kind(), e)),
        Ok(Err(p)) => {
            if p.is::<SimEnd>() {
                Outcome::SimEnd
            } else if let Some(w) = p.downcast_ref::<SimWedge>() {
                Outcome::Wedge(w.0.clone())
            } else {
                let m = PANIC_MSG.lock().unwrap_or_else(|e| e.into_inner()).take();
                Outcome::Panic(m.unwrap_or_else(|| "panic (no message)".into()))
            }
        }
        Err(_) => {
            tainted = true;
            TAINTED.store(true, std::sync::atomic::Ordering::SeqCst);
            Outcome::Wedge(format!("watchdog: reader thread did not finish within {:?} of wall-clock time", WATCHDOG))
        }
    };
    log::set_max_level(log::LevelFilter::Off);
    if tainted {
        // the reader thread is still alive (and may hold the table lock for ever): abandon the world
        // without running its destructor, which would try to take a last snapshot
        std::mem::forget(verif_seam::install(None));
        // take what we have
        let tr = trace.lock().unwrap_or_else(|e| e.into_inner());
        return History {
            steps: tr.steps.clone(),
            seam: tr.seam.clone(),
            outcome,
            end_t_us: simchrono::sim_now_us(),
            final_table: Arc::new(Snapshot::new()),
            unread_ops: script.n_ops().saturating_sub(tr.consumed_ops),
            eof_served: tr.eof_served,
            now_calls: simchrono::sim_now_calls(),
            tainted,
        };
    }
    // close the last step with the final table
    let w = verif_seam::install(None);
    drop(w);
    let final_table = Arc::new(snapshot_of(&table));
    let mut tr = trace.lock().unwrap_or_else(|e| e.into_inner());
    // the world may have been dropped with an open step (file source ends without another seam call)
    let steps = std::mem::take(&mut tr.steps);
    let seam = std::mem::take(&mut tr.seam);
    let h = History {
        steps,
        seam,
        outcome,
        end_t_us: simchrono::sim_now_us(),
        final_table,
        unread_ops: script.n_ops().saturating_sub(tr.consumed_ops),
        eof_served: tr.eof_served,
        now_calls: simchrono::sim_now_calls(),
        tainted,
    };
    h
}

static TAINTED: std::sync::atomic::AtomicBool = std::sync::atomic::AtomicBool::new(false);

/// True once a watchdog fired in this process: the stuck reader thread still
/// owns the world, so nothing else may be simulated here.
pub fn is_tainted() -> bool {
    TAINTED.load(std::sync::atomic::Ordering::SeqCst)
}

/// Digest of the complete event log of a run (every seam call with its
/// simulated time, every step with lines, output and table) - the object the
/// determinism self-test compares.
pub fn digest(h: &History) -> u64 {
    let mut s = String::new();
    use std::fmt::Write;
    let _ = write!(s, "{:?}|{}|{}|{}|", h.outcome, h.end_t_us, h.unread_ops, h.now_calls);
    for e in &h.seam {
        let _ = write!(s, "{:?};", e);
    }
    for st in &h.steps {
        let _ = write!(s, "[{} {} {:?} {} {:?} {:?} {:?} {:?}]", st.conn, st.op, st.kind, st.t_us, st.lines, st.dropped_partial, st.pre_out, st.out);
        let _ = write!(s, "{}", serde_json::to_string(&*st.after).unwrap());
    }
    let _ = write!(s, "{}", serde_json::to_string(&*h.final_table).unwrap());
    crate::stats::fnv(s.as_bytes())
}
