//! A script is one fully explicit simulated execution: options, feed, timing,
//! faults.  The PRNG expands into scripts; the executor plays them and never
//! draws a random number.  Replay files are (cases of) scripts.
use serde::{Deserialize, Serialize};

/// Bytes stored readably: printable ASCII as is, everything else `\xNN`.
#[derive(Clone, Debug, PartialEq, Eq, Default)]
pub struct Bytes(pub Vec<u8>);

pub fn escape(b: &[u8]) -> String {
    let mut s = String::with_capacity(b.len());
    for &c in b {
        match c {
            b'\\' => s.push_str("\\\\"),
            b'\n' => s.push_str("\\n"),
            b'\r' => s.push_str("\\r"),
            0x20..=0x7E => s.push(c as char),
            _ => s.push_str(&format!("\\x{:02X}", c)),
        }
    }
    s
}

pub fn unescape(s: &str) -> Vec<u8> {
    let b = s.as_bytes();
    let mut out = Vec::with_capacity(b.len());
    let mut i = 0;
    while i < b.len() {
        if b[i] == b'\\' && i + 1 < b.len() {
            match b[i + 1] {
                b'\\' => { out.push(b'\\'); i += 2; }
                b'n' => { out.push(b'\n'); i += 2; }
                b'r' => { out.push(b'\r'); i += 2; }
                b'x' if i + 3 < b.len() => {
                    let h = std::str::from_utf8(&b[i + 2..i + 4]).ok().and_then(|h| u8::from_str_radix(h, 16).ok());
                    out.push(h.unwrap_or(b'?'));
                    i += 4;
                }
                _ => { out.push(b[i]); i += 1; }
            }
        } else {
            out.push(b[i]);
            i += 1;
        }
    }
    out
}

impl Serialize for Bytes {
    fn serialize<S: serde::Serializer>(&self, s: S) -> Result<S::Ok, S::Error> {
        // long runs (over-long junk lines) are run-length compressed: {"rep": "x", "n": 70000, ..}
        s.serialize_str(&escape(&self.0))
    }
}
impl<'de> Deserialize<'de> for Bytes {
    fn deserialize<D: serde::Deserializer<'de>>(d: D) -> Result<Bytes, D::Error> {
        let s = String::deserialize(d)?;
        Ok(Bytes(unescape(&s)))
    }
}

/// One thing the feed does when the reader asks for bytes.
#[derive(Clone, Debug, PartialEq, Serialize, Deserialize)]
#[serde(tag = "op")]
pub enum Op {
    /// `dt_us` of simulated time passes, then these bytes are available.
    /// `tag` is free text for the reader of a replay file (frame kind, fault kind).
    #[serde(rename = "data")]
    Data { dt_us: i64, bytes: Bytes, #[serde(default, skip_serializing_if = "String::is_empty")] tag: String },
    /// The read fails with this `std::io::ErrorKind`.
    #[serde(rename = "err")]
    Err { dt_us: i64, kind: String },
    /// The peer closes / the file ends.
    #[serde(rename = "eof")]
    Eof { dt_us: i64 },
}

impl Op {
    pub fn dt(&self) -> i64 {
        match self { Op::Data { dt_us, .. } | Op::Err { dt_us, .. } | Op::Eof { dt_us } => *dt_us }
    }
    pub fn set_dt(&mut self, v: i64) {
        match self { Op::Data { dt_us, .. } | Op::Err { dt_us, .. } | Op::Eof { dt_us } => *dt_us = v }
    }
}

#[derive(Clone, Debug, PartialEq, Serialize, Deserialize)]
#[serde(tag = "conn")]
pub enum Conn {
    /// connect() / open() fails.
    #[serde(rename = "refuse")]
    Refuse {
        kind: String,
        /// The wall clock is moved by this much when the attempt is made (negative = set back).
        #[serde(default, skip_serializing_if = "is_zero_i64")]
        dt_us: i64,
    },
    /// connect() / open() succeeds; reads are served from `ops`.  When the ops
    /// of the *last* connection of a TCP script are used up the simulation ends.
    #[serde(rename = "accept")]
    Accept { ops: Vec<Op> },
}

fn is_zero_i64(v: &i64) -> bool { *v == 0 }

#[derive(Clone, Debug, PartialEq, Serialize, Deserialize)]
pub struct Script {
    /// Command-line options except the source (`-s`/`-t` are added by the executor).
    pub args: Vec<String>,
    /// `off|error|warn|info|debug|trace` - stands in for `-l` (which only installs a logger).
    pub log_level: String,
    pub tcp: bool,
    pub conns: Vec<Conn>,
    /// Added to the clock after every `Utc::now()` ("fine tick" fault); 0 = frozen during a line.
    #[serde(default)]
    pub tick_us: i64,
}

impl Script {
    pub fn file(args: Vec<String>, ops: Vec<Op>) -> Script {
        Script { args, log_level: "off".into(), tcp: false, conns: vec![Conn::Accept { ops }], tick_us: 0 }
    }
    pub fn n_ops(&self) -> usize {
        self.conns.iter().map(|c| match c { Conn::Accept { ops } => ops.len(), _ => 1 }).sum()
    }
    pub fn has_arg(&self, a: &str) -> bool {
        self.args.iter().any(|x| x == a)
    }
    /// Value of `--name=value` style option.
    pub fn arg_val(&self, name: &str) -> Option<String> {
        let p = format!("{}=", name);
        self.args.iter().find_map(|a| a.strip_prefix(&p).map(|s| s.to_string()))
    }
    pub fn delete_after(&self) -> i64 {
        self.arg_val("--delete-after").and_then(|v| v.parse().ok()).unwrap_or(60)
    }
    pub fn update(&self) -> i64 {
        self.arg_val("--update").and_then(|v| v.parse().ok()).unwrap_or(3)
    }
    pub fn filter(&self) -> Option<Vec<u32>> {
        let v: Vec<u32> = self.args.iter().filter_map(|a| a.strip_prefix("--filter=").and_then(|s| s.parse().ok())).collect();
        if v.is_empty() { None } else { Some(v) }
    }
}

/// What a check hands to the minimiser / writes as a replay file.
#[derive(Clone, Debug, Serialize, Deserialize)]
pub struct Case {
    pub property: String,
    /// Sub-workload within the property (e.g. "presentation" / "update-method" for C19).
    #[serde(default)]
    pub mode: String,
    pub script: Script,
    /// Second option vector for differential properties (C19).
    #[serde(default, skip_serializing_if = "Option::is_none")]
    pub args_b: Option<Vec<String>>,
    #[serde(default, skip_serializing_if = "Option::is_none")]
    pub log_level_b: Option<String>,
    /// Generator's ground truth the oracle needs (e.g. true positions); never used by the executor.
    #[serde(default, skip_serializing_if = "serde_json::Value::is_null")]
    pub meta: serde_json::Value,
}

#[derive(Clone, Debug, Serialize, Deserialize, PartialEq)]
pub struct Violation {
    pub rule: String,
    pub msg: String,
    /// Index of the history step at which it was observed (usize::MAX = end of run).
    pub step: usize,
    /// Structured facts about the failing input, used to match known findings.
    #[serde(default)]
    pub witness: serde_json::Value,
}

#[derive(Clone, Debug, Serialize, Deserialize)]
pub struct ReplayFile {
    pub property: String,
    pub seed: u64,
    pub run: u64,
    pub profile: String,
    pub rule: String,
    pub msg: String,
    pub witness: serde_json::Value,
    pub minimised: bool,
    pub case: Case,
}
